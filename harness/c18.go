package main

// C18: client and cache are safe and live under concurrent use.
// Goroutines call the client API concurrently with notifications, monitor
// set-up and cancellation, disconnects, reconnects and proxy cuts. Every call
// has a context deadline and must return by it (plus slack); readers check that
// no row mixes two versions (two columns are always written together); the
// whole harness runs under the Go race detector (see `race` in checks.json) and
// under the stall watchdog.

import (
	"context"
	"encoding/json"
	"fmt"
	"math/rand"
	"os"
	"reflect"
	"runtime"
	"strings"
	"sync"
	"sync/atomic"
	"time"

	"github.com/cenkalti/backoff/v4"
	"github.com/ovn-org/libovsdb/client"
	"github.com/ovn-org/libovsdb/model"
	"github.com/ovn-org/libovsdb/ovsdb"
)

func init() { props["C18"] = runC18 }

func c18Schema() TxnSchema {
	str := ColType{Kind: "atom", Key: "string", Min: 1, Max: 1}
	num := ColType{Kind: "atom", Key: "integer", Min: 1, Max: 1}
	spec := SchemaSpec{Name: "db", Tables: []TableSpec{
		// "key" never changes and has a schema index: rows can be looked up through it
		{Name: "Pair", IsRoot: true, Indexes: [][]string{{"key"}}, Cols: []ColSpec{{Name: "name", Type: str}, {Name: "n", Type: num},
			{Name: "s", Type: ColType{Kind: "set", Key: "integer", Min: 0, Max: -1}}, {Name: "m", Type: ColType{Kind: "map", Key: "string", Val: "integer", Min: 0, Max: -1}},
			{Name: "key", Type: str},
			// two columns with few values, for client indexes that file several rows under one value
			{Name: "zone", Type: str}, {Name: "kind", Type: str}}},
		{Name: "Other", IsRoot: true, Cols: []ColSpec{{Name: "name", Type: str}, {Name: "n", Type: num}}},
	}}
	ts := TxnSchema{Spec: spec, Specs: map[string][]ISpec{"Pair": {}, "Other": {}}}
	return ts
}

// pairRow: every column is a function of k, so a row mixing two versions is recognisable
func pairRow(k int64) Row {
	return Row{"name": VA(AS(fmt.Sprintf("v%d", k))), "n": VA(AI(k)), "s": VS(AI(k), AI(k+1)), "m": VM([2]Atom{AS("k"), AI(k)})}
}

func pairConsistent(r Row) bool {
	k := r["n"].A.I
	want := pairRow(k)
	for c, v := range want {
		if r[c].Canon() != v.Canon() {
			return false
		}
	}
	return true
}

type callStat struct {
	mu    sync.Mutex
	slow  []string
	count map[string]int
	errs  map[string]int
	msgs  map[string]int
}

func (cs *callStat) call(name string, limit time.Duration, f func(ctx context.Context) error) {
	ctx, cancel := context.WithTimeout(context.Background(), limit)
	start := time.Now()
	done := make(chan error, 1)
	go func() { done <- f(ctx) }()
	var err error
	select {
	case err = <-done:
	case <-time.After(limit + 3*time.Second):
		cs.mu.Lock()
		cs.slow = append(cs.slow, fmt.Sprintf("%s did not return %v after its context expired", name, 3*time.Second))
		cs.mu.Unlock()
		cancel()
		return
	}
	cancel()
	_ = start
	cs.mu.Lock()
	cs.count[name]++
	if err != nil {
		cs.errs[name]++
		if cs.msgs == nil {
			cs.msgs = map[string]int{}
		}
		m := err.Error()
		if len(m) > 80 {
			m = m[:80]
		}
		cs.msgs[name+": "+m]++
	}
	cs.mu.Unlock()
}

func runC18(r *Run) {
	r.Rule = "a client (with and without automatic reconnect) behind a cutting proxy is used from 6-8 goroutines at once for 150-400 ms: List/Get/WhereCache reads, Transact, Monitor and MonitorCancel of a second table, Echo, Disconnect/Connect cycles or proxy cuts, error paths (unknown table, cancelled context, calls while disconnected), while a writer updates rows whose columns always change together; every call must return by its context deadline + 3s; on a quiet database every way an API call can fail (Monitor without tables / of an unknown table / with a cancelled context, MonitorCancel of an unknown monitor, Transact and Echo with a cancelled context, Get of an unknown row) is followed by a read that must return at once and by a committed change that must reach the cache; no reader may see a row mixing two versions, all goroutines must finish, and the run is repeated under the Go race detector; non-trivial = run with at least one reconnect or Disconnect/Connect cycle and at least 50 completed calls; distinct by (seed, run)"
	n := 12
	if r.Tier == "thorough" {
		n = 120
	}
	for h := 0; h < n; h++ {
		c18Run(r, h)
	}
	for h := 0; h < n; h++ {
		c18Pinned(r, h)
	}
	for h := 0; h < 2*n; h++ {
		c18AfterFailure(r, h)
		c18FailedReconnect(r, h)
		c18ErrorDuringCut(r, h)
		c18NotificationDuringMonitor(r, h)
		c18ProbeStall(r, h)
		c18CutAfterReply(r, h)
		c18SilentPeer(r, h)
	}
}

// c18Pinned: orderings pinned through the pause points: the connection is cut
// while an update handler is about to take the cache lock, or while a monitor
// reply has been received and not yet applied
func c18Pinned(r *Run, h int) {
	rng := r.Rng
	ts := c18Schema()
	rig, err := newRig(ts)
	if err != nil {
		return
	}
	defer rig.Close()
	px, err := newProxy(rig.sock)
	if err != nil {
		return
	}
	defer px.Close()
	ctx, cancel := ctxT(60 * time.Second)
	defer cancel()
	rig.im.transact([]OperationJ{{Op: "insert", Table: "Pair", UUID: mkUUID(1), Row: pairRow(0)},
		{Op: "insert", Table: "Other", UUID: mkUUID(50), Row: Row{"name": VA(AS("o")), "n": VA(AI(0))}}}, nil)
	writer, _, err := rig.newClient(rig.endpoint())
	if err != nil || writer.Connect(ctx) != nil {
		return
	}
	defer writer.Close()
	a, adb, err := rig.newClient(px.endpoint(), client.WithReconnect(2*time.Second, backoff.NewConstantBackOff(2*time.Millisecond)))
	if err != nil || a.Connect(ctx) != nil {
		return
	}
	defer a.Close()
	kind := []string{"update-handler", "monitor-reply"}[h%2]
	cs := map[string]interface{}{"schedule": kind, "run": h}
	r.Case("pinned", fmt.Sprintf("%s-%d-%d", kind, r.Seed, h))
	fail := func(impl, want, why string) { r.Violation("pinned", cs, impl, want, true, why, "") }
	if _, err := a.Monitor(ctx, &client.Monitor{Method: monitorMethods[rng.Intn(3)], Tables: []client.TableMonitor{{Table: "Pair"}},
		LastTransactionID: "00000000-0000-0000-0000-000000000000"}); err != nil {
		fail(err.Error(), "monitor", "Monitor failed")
		return
	}
	within := func(name string, d time.Duration, f func() error) bool {
		done := make(chan error, 1)
		go func() { done <- f() }()
		select {
		case <-done:
			return true
		case <-time.After(d):
			fail(name+" did not return within "+d.String(), "returns", "a call blocked for good on a pinned schedule ("+kind+")")
			return false
		}
	}
	switch kind {
	case "update-handler":
		pp := pauses.arm("update.before-lock")
		wdone := make(chan error, 1)
		go func() {
			wctx, wc := ctxT(5 * time.Second)
			defer wc()
			_, err := writer.Transact(wctx, OperationJ{Op: "update", Table: "Pair", Where: []WCondJ{{Col: "_uuid", Fn: "==", Val: VA(AU(mkUUID(1)))}}, Row: pairRow(7)}.toOvs())
			wdone <- err
		}()
		if !pp.waitReached(5 * time.Second) {
			pauses.disarm("update.before-lock")
			fail("the notification never reached the client", "", "no notification")
			return
		}
		px.cutNow() // the connection is lost while the handler is about to apply the update
		time.Sleep(time.Duration(rng.Intn(20)) * time.Millisecond)
		pp.Release()
		select {
		case <-wdone:
		case <-time.After(8 * time.Second):
			fail("the writer's Transact did not return", "returns", "a writer is blocked for good by a client that lost its connection inside an update handler")
			return
		}
	case "monitor-reply":
		pp := pauses.arm("monitor.reply-received")
		mdone := make(chan error, 1)
		go func() {
			mctx, mc := ctxT(5 * time.Second)
			defer mc()
			_, err := a.Monitor(mctx, &client.Monitor{Method: monitorMethods[rng.Intn(3)], Tables: []client.TableMonitor{{Table: "Other"}},
				LastTransactionID: "00000000-0000-0000-0000-000000000000"})
			mdone <- err
		}()
		if !pp.waitReached(5 * time.Second) {
			pauses.disarm("monitor.reply-received")
			fail("the monitor reply never arrived", "", "no reply")
			return
		}
		px.cutNow() // the connection is lost between the reply and its application
		time.Sleep(time.Duration(rng.Intn(20)) * time.Millisecond)
		pp.Release()
		select {
		case <-mdone:
		case <-time.After(8 * time.Second):
			fail("Monitor did not return", "returns", "Monitor is blocked for good when the connection is lost while its reply is pending")
			return
		}
	}
	// afterwards: the client comes back and its cache converges
	if !within("Echo after the cut", 10*time.Second, func() error {
		for try := 0; try < 1500; try++ {
			ectx, ec := ctxT(time.Second)
			err := a.Echo(ectx)
			ec()
			if err == nil && a.Connected() {
				return nil
			}
			time.Sleep(5 * time.Millisecond)
		}
		return fmt.Errorf("no echo")
	}) {
		return
	}
	wctx, wc := ctxT(5 * time.Second)
	_, _ = writer.Transact(wctx, OperationJ{Op: "update", Table: "Pair", Where: []WCondJ{{Col: "_uuid", Fn: "==", Val: VA(AU(mkUUID(1)))}}, Row: pairRow(9)}.toOvs())
	wc()
	cols := map[string][]string{"Pair": nil}
	var got, want string
	for try := 0; try < 400; try++ {
		want = dumpCanon(projectDump(ts.Spec, rig.im.dump(), cols))
		func() {
			defer func() { _ = recover() }()
			got = dumpCanon(projectDump(ts.Spec, cacheDump(a, adb, []string{"Pair"}), cols))
		}()
		if got == want {
			break
		}
		time.Sleep(5 * time.Millisecond)
	}
	if got != want {
		fail(diffLines(got, want), "cache = database", "after a cut on a pinned schedule ("+kind+") the cache does not converge")
	}
}

func c18Run(r *Run, h int) {
	rng := r.Rng
	ts := c18Schema()
	rig, err := newRig(ts)
	if err != nil {
		r.Violation("rig", nil, err.Error(), "", false, "cannot start the server", "")
		return
	}
	defer rig.Close()
	px, err := newProxy(rig.sock)
	if err != nil {
		r.Violation("rig", nil, err.Error(), "", false, "cannot start the proxy", "")
		return
	}
	defer px.Close()
	// the in-memory server answers monitor_cancel with "not implemented"; a real server cancels. In half of
	// the runs the proxy answers in its place, so that the client's path after a successful cancel (it
	// forgets the monitor) runs next to the readers and the notification handlers
	cancelWorks := rng.Intn(2) == 0
	if cancelWorks {
		var cmu sync.Mutex
		cancels := map[string]bool{}
		px.rewrite = func(session int, toClient bool, raw json.RawMessage) json.RawMessage {
			var head struct {
				Method string          `json:"method"`
				ID     json.RawMessage `json:"id"`
			}
			if json.Unmarshal(raw, &head) != nil {
				return raw
			}
			cmu.Lock()
			defer cmu.Unlock()
			key := fmt.Sprintf("%d/%s", session, head.ID)
			if !toClient {
				if head.Method == "monitor_cancel" {
					cancels[key] = true
				}
				return raw
			}
			if head.Method == "" && cancels[key] {
				delete(cancels, key)
				return json.RawMessage(fmt.Sprintf(`{"id":%s,"result":{},"error":null}`, head.ID))
			}
			return raw
		}
	}
	ctx, cancel := ctxT(60 * time.Second)
	defer cancel()
	// initial rows
	rig.clientIdx = map[string][]model.ClientIndex{"Pair": {
		{Columns: []model.ColumnKey{{Column: "zone"}}}, {Columns: []model.ColumnKey{{Column: "kind"}}}}}
	var setup []OperationJ
	nRows := 6
	for i := 0; i < nRows; i++ {
		row := pairRow(int64(i))
		row["key"] = VA(AS(fmt.Sprintf("r%d", i+1)))
		row["zone"], row["kind"] = VA(AS(fmt.Sprintf("z%d", i%2))), VA(AS(fmt.Sprintf("k%d", (i/2)%2)))
		setup = append(setup, OperationJ{Op: "insert", Table: "Pair", UUID: mkUUID(i + 1), Row: row})
	}
	setup = append(setup, OperationJ{Op: "insert", Table: "Other", UUID: mkUUID(50), Row: Row{"name": VA(AS("o")), "n": VA(AI(0))}})
	rig.im.transact(setup, nil)
	writer, _, err := rig.newClient(rig.endpoint())
	if err != nil || writer.Connect(ctx) != nil {
		r.Violation("rig", nil, fmt.Sprint(err), "", false, "writer cannot connect", "")
		return
	}
	defer writer.Close()
	reconnect := rng.Intn(2) == 0
	var opts []client.Option
	if reconnect {
		opts = append(opts, client.WithReconnect(2*time.Second, backoff.NewConstantBackOff(2*time.Millisecond)))
	}
	a, adb, err := rig.newClient(px.endpoint(), opts...)
	if err != nil {
		r.Violation("rig", nil, err.Error(), "", false, "cannot create the client", "")
		return
	}
	defer a.Close()
	cs := map[string]interface{}{"reconnect": reconnect, "run": h, "seed": r.Seed, "monitor_cancel_succeeds": cancelWorks}
	if err := a.Connect(ctx); err != nil {
		r.Violation("live", cs, err.Error(), "connected", true, "cannot connect", "")
		return
	}
	pairMon := &client.Monitor{Method: monitorMethods[rng.Intn(3)], Tables: []client.TableMonitor{{Table: "Pair"}}, LastTransactionID: "00000000-0000-0000-0000-000000000000"}
	if _, err := a.Monitor(ctx, pairMon); err != nil {
		r.Violation("live", cs, err.Error(), "monitor", true, "Monitor failed", "")
		return
	}
	stat := &callStat{count: map[string]int{}, errs: map[string]int{}}
	var torn atomic.Value
	var stop atomic.Bool
	var cycles atomic.Int64
	var wg sync.WaitGroup
	dur := time.Duration(150+rng.Intn(250)) * time.Millisecond
	limit := 1500 * time.Millisecond
	pairType := adb.types["Pair"]
	checkModels := func(ms []model.Model) {
		for _, m := range ms {
			_, row := adb.RowOf("Pair", m)
			if !pairConsistent(row) {
				torn.Store(row.Canon())
			}
		}
	}
	spawn := func(seed int64, f func(lr *rand.Rand)) {
		wg.Add(1)
		go func() {
			defer wg.Done()
			defer func() {
				if p := recover(); p != nil {
					stat.mu.Lock()
					stat.slow = append(stat.slow, fmt.Sprintf("panic: %v", p))
					stat.mu.Unlock()
				}
			}()
			lr := rand.New(rand.NewSource(seed))
			for !stop.Load() {
				f(lr)
			}
		}()
	}
	// the writer: rows change all their columns together
	var version atomic.Int64
	version.Store(100)
	spawn(rng.Int63(), func(lr *rand.Rand) {
		k := version.Add(1)
		u := mkUUID(1 + lr.Intn(nRows))
		op := OperationJ{Op: "update", Table: "Pair", Where: []WCondJ{{Col: "_uuid", Fn: "==", Val: VA(AU(u))}}, Row: pairRow(k)}
		if lr.Intn(3) == 0 {
			op.Row["zone"] = VA(AS(fmt.Sprintf("z%d", lr.Intn(2)))) // rows move between the entries of the client indexes
		}
		wctx, wc := ctxT(2 * time.Second)
		_, _ = writer.Transact(wctx, op.toOvs())
		wc()
	})
	// readers that select through two client indexes at once (several rows under each value, the two
	// candidate sets differ): a lookup reads the indexes, it does not rearrange them
	for k := 0; k < 2; k++ {
		spawn(rng.Int63(), func(lr *rand.Rand) {
			stat.call("WhereAll(zone, kind).List", limit, func(ctx context.Context) error {
				z, kd := fmt.Sprintf("z%d", lr.Intn(2)), fmt.Sprintf("k%d", lr.Intn(2))
				probe := adb.NewModel("Pair", "", nil)
				ptrs := fieldPtrs(adb, "Pair", probe, []string{"zone", "kind"})
				res := reflect.New(reflect.SliceOf(reflect.PtrTo(pairType)))
				err := a.WhereAll(probe, model.Condition{Field: ptrs[0], Function: ovsdb.ConditionEqual, Value: z},
					model.Condition{Field: ptrs[1], Function: ovsdb.ConditionEqual, Value: kd}).List(ctx, res.Interface())
				if err == nil {
					var ms []model.Model
					for i := 0; i < res.Elem().Len(); i++ {
						m := res.Elem().Index(i).Interface()
						ms = append(ms, m)
						if _, row := adb.RowOf("Pair", m); row["zone"].A.S != z || row["kind"].A.S != kd {
							torn.Store(fmt.Sprintf("selected by zone == %s and kind == %s: %s", z, kd, row.Canon()))
						}
					}
					checkModels(ms)
				}
				return err
			})
		})
	}
	// readers
	spawn(rng.Int63(), func(lr *rand.Rand) {
		stat.call("List", limit, func(ctx context.Context) error {
			res := reflect.New(reflect.SliceOf(reflect.PtrTo(pairType)))
			err := a.List(ctx, res.Interface())
			if err == nil {
				var ms []model.Model
				for i := 0; i < res.Elem().Len(); i++ {
					ms = append(ms, res.Elem().Index(i).Interface())
				}
				checkModels(ms)
				for _, m := range ms {
					mutateModel(m)
				}
			}
			return err
		})
	})
	// readers that find a row through the schema index and then use what they got as their own: two of them,
	// so that a result that is not a private copy is written by two goroutines
	for k := 0; k < 2; k++ {
		spawn(rng.Int63(), func(lr *rand.Rand) {
			stat.call("Where(index).List", limit, func(ctx context.Context) error {
				probe := adb.NewModel("Pair", "", Row{"key": VA(AS(fmt.Sprintf("r%d", 1+lr.Intn(nRows))))})
				res := reflect.New(reflect.SliceOf(reflect.PtrTo(pairType)))
				err := a.Where(probe).List(ctx, res.Interface())
				if err == nil {
					var ms []model.Model
					for i := 0; i < res.Elem().Len(); i++ {
						ms = append(ms, res.Elem().Index(i).Interface())
					}
					checkModels(ms)
					for _, m := range ms {
						mutateModel(m)
					}
				}
				return err
			})
		})
	}
	// readers with explicit conditions (WhereAll / WhereAny): the rows are selected by condition and then
	// fetched one by one, all under the table's lock; three of them, so that a lock taken twice by one
	// reader meets the writer that applies notifications in between
	for k := 0; k < 3; k++ {
		spawn(rng.Int63(), func(lr *rand.Rand) {
			stat.call("WhereAll(cond).List", limit, func(ctx context.Context) error {
				key := fmt.Sprintf("r%d", 1+lr.Intn(nRows))
				probe := adb.NewModel("Pair", "", Row{"key": VA(AS(key))})
				cond := model.Condition{Field: fieldPtrs(adb, "Pair", probe, []string{"key"})[0], Function: ovsdb.ConditionEqual, Value: key}
				if lr.Intn(2) == 0 {
					cond.Function = ovsdb.ConditionNotEqual
				}
				res := reflect.New(reflect.SliceOf(reflect.PtrTo(pairType)))
				var err error
				if lr.Intn(2) == 0 {
					err = a.WhereAll(probe, cond).List(ctx, res.Interface())
				} else {
					err = a.WhereAny(probe, cond).List(ctx, res.Interface())
				}
				if err == nil {
					var ms []model.Model
					for i := 0; i < res.Elem().Len(); i++ {
						ms = append(ms, res.Elem().Index(i).Interface())
					}
					checkModels(ms)
				}
				return err
			})
		})
	}
	// a reader whose predicate looks at the rows the cache holds (WhereCache): the predicate must never be
	// shown a row that mixes two versions, and neither must the result
	spawn(rng.Int63(), func(lr *rand.Rand) {
		pred := reflect.MakeFunc(reflect.FuncOf([]reflect.Type{reflect.PtrTo(pairType)}, []reflect.Type{reflect.TypeOf(true)}, false),
			func(args []reflect.Value) []reflect.Value {
				// read twice with a pause in between: an update applied in place would show through
				m := args[0].Interface()
				_, r1 := adb.RowOf("Pair", m)
				runtime.Gosched()
				_, r2 := adb.RowOf("Pair", m)
				if !pairConsistent(r1) || !pairConsistent(r2) || r1.Canon() != r2.Canon() {
					torn.Store(r1.Canon() + " / " + r2.Canon())
				}
				return []reflect.Value{reflect.ValueOf(true)}
			})
		stat.call("WhereCache.List", limit, func(ctx context.Context) (err error) {
			defer func() {
				if p := recover(); p != nil {
					err = fmt.Errorf("panic: %v", p)
				}
			}()
			res := reflect.New(reflect.SliceOf(reflect.PtrTo(pairType)))
			err = a.WhereCache(pred.Interface()).List(ctx, res.Interface())
			if err == nil {
				var ms []model.Model
				for i := 0; i < res.Elem().Len(); i++ {
					ms = append(ms, res.Elem().Index(i).Interface())
				}
				checkModels(ms)
			}
			return err
		})
	})
	spawn(rng.Int63(), func(lr *rand.Rand) {
		stat.call("Get", limit, func(ctx context.Context) error {
			m := adb.NewModel("Pair", mkUUID(1+lr.Intn(nRows)), nil)
			err := a.Get(ctx, m)
			if err == nil {
				checkModels([]model.Model{m})
				mutateModel(m)
			}
			return err
		})
		// the cache, read directly
		func() {
			defer func() { _ = recover() }() // the cache is nil while a client without reconnect is disconnected
			if tc := a.Cache(); tc != nil {
				if t := tc.Table("Pair"); t != nil {
					var ms []model.Model
					for _, m := range t.Rows() {
						ms = append(ms, m)
					}
					checkModels(ms)
					for _, m := range ms {
						mutateModel(m)
					}
				}
			}
		}()
	})
	// own transactions
	spawn(rng.Int63(), func(lr *rand.Rand) {
		stat.call("Transact", limit, func(ctx context.Context) error {
			k := version.Add(1)
			op := OperationJ{Op: "update", Table: "Pair", Where: []WCondJ{{Col: "_uuid", Fn: "==", Val: VA(AU(mkUUID(1 + lr.Intn(nRows))))}}, Row: pairRow(k)}
			_, err := a.Transact(ctx, op.toOvs())
			return err
		})
	})
	// a second monitor (the in-memory server does not implement monitor_cancel, so it is established once per
	// connection of a client without reconnect, once for good otherwise), and the error paths
	var otherMonitored atomic.Bool
	spawn(rng.Int63(), func(lr *rand.Rand) {
		if !otherMonitored.Load() {
			var cookie client.MonitorCookie
			var err error
			stat.call("Monitor", limit, func(ctx context.Context) error {
				cookie, err = a.Monitor(ctx, &client.Monitor{Method: monitorMethods[lr.Intn(3)], Tables: []client.TableMonitor{{Table: "Other"}},
					LastTransactionID: "00000000-0000-0000-0000-000000000000"})
				return err
			})
			if err == nil {
				otherMonitored.Store(true)
				var cerr error
				stat.call("MonitorCancel", limit, func(ctx context.Context) error { cerr = a.MonitorCancel(ctx, cookie); return cerr })
				if cerr == nil {
					stat.mu.Lock()
					stat.count["MonitorCancel(ok)"]++
					stat.mu.Unlock()
					otherMonitored.Store(false) // cancelled: monitor the table again next time
				}
			}
		}
		switch lr.Intn(4) {
		case 0: // a table the model does not have
			stat.call("Monitor(unknown table)", limit, func(ctx context.Context) error {
				_, err := a.Monitor(ctx, &client.Monitor{Method: ovsdb.ConditionalMonitorRPC, Tables: []client.TableMonitor{{Table: "NoSuchTable"}}})
				return err
			})
		case 1: // a context that is already cancelled
			cctx, cc := context.WithCancel(context.Background())
			cc()
			_, _ = a.Transact(cctx, OperationJ{Op: "select", Table: "Pair"}.toOvs())
			_ = a.Echo(cctx)
		case 2:
			stat.call("MonitorCancel(unknown)", limit, func(ctx context.Context) error {
				return a.MonitorCancel(ctx, client.MonitorCookie{DatabaseName: "db", ID: "nosuchmonitor"})
			})
		}
		time.Sleep(500 * time.Microsecond)
	})
	spawn(rng.Int63(), func(lr *rand.Rand) {
		stat.call("Echo", limit, func(ctx context.Context) error { return a.Echo(ctx) })
		time.Sleep(time.Millisecond)
	})
	// the connection comes and goes
	spawn(rng.Int63(), func(lr *rand.Rand) {
		time.Sleep(time.Duration(30+lr.Intn(60)) * time.Millisecond)
		if stop.Load() {
			return
		}
		cycles.Add(1)
		if reconnect {
			if lr.Intn(2) == 0 {
				px.cutNow()
			} else {
				a.Disconnect() // reconnects by itself
			}
		} else {
			a.Disconnect()
			otherMonitored.Store(false)
			time.Sleep(time.Duration(lr.Intn(5)) * time.Millisecond)
			for try := 0; try < 100 && !stop.Load(); try++ {
				stat.call("Connect", limit, func(ctx context.Context) error { return a.Connect(ctx) })
				if a.Connected() {
					break
				}
				time.Sleep(time.Millisecond)
			}
			stat.call("Monitor(again)", limit, func(ctx context.Context) error {
				_, err := a.Monitor(ctx, &client.Monitor{Method: pairMon.Method, Tables: pairMon.Tables, LastTransactionID: "00000000-0000-0000-0000-000000000000"})
				return err
			})
		}
	})
	time.Sleep(dur)
	stop.Store(true)
	finished := make(chan struct{})
	go func() { wg.Wait(); close(finished) }()
	select {
	case <-finished:
	case <-time.After(15 * time.Second):
		r.Violation("live", cs, "goroutines still running 15s after the run was stopped", "all calls return", true, "a client call never returned", "")
		// the stall watchdog prints the goroutine dump if the harness itself hangs
		return
	}
	total := 0
	for _, v := range stat.count {
		total += v
	}
	for k, v := range stat.count {
		r.Dist["calls:"+k] += v
	}
	for k, v := range stat.errs {
		r.Dist["errors:"+k] += v
	}
	key := ""
	if cycles.Load() > 0 && total >= 50 {
		key = fmt.Sprintf("%d-%d", r.Seed, h)
	}
	r.Case("live", key)
	cs["calls"] = stat.count
	cs["errors"] = stat.errs
	if os.Getenv("VERIF_C18_ERRORS") != "" {
		fmt.Println(h, reconnect, stat.msgs)
	}
	if len(stat.slow) > 0 {
		r.Violation("live", cs, fmt.Sprint(stat.slow), "every call returns by its deadline", true, "a client call did not return in time (or panicked)", "")
		return
	}
	if v := torn.Load(); v != nil {
		r.Violation("live", cs, fmt.Sprint(v), "all columns of one version", true, "a reader saw a row mixing the columns of two versions", "")
		return
	}
	// after the storm: the client still works
	final := func() error {
		fctx, fc := ctxT(5 * time.Second)
		defer fc()
		for try := 0; try < 200; try++ {
			if err := a.Connect(fctx); err == nil || err == client.ErrAlreadyConnected {
				break
			}
			time.Sleep(5 * time.Millisecond)
		}
		var err error
		for try := 0; try < 300; try++ {
			if err = a.Echo(fctx); err == nil {
				break
			}
			time.Sleep(5 * time.Millisecond)
		}
		return err
	}
	if err := final(); err != nil {
		r.Violation("live", cs, err.Error(), "echo succeeds", true, "after the concurrent phase the client cannot reach the server any more", "")
		return
	}
	// and its indexes still say what its rows say: a lookup through a client index finds every row that holds
	// the value (all the reading above has changed nothing)
	if a.Cache() != nil && a.Cache().Table("Pair") != nil {
		fctx, fc := ctxT(5 * time.Second)
		defer fc()
		for try := 0; ; try++ {
			all := reflect.New(reflect.SliceOf(reflect.PtrTo(pairType)))
			if err := a.List(fctx, all.Interface()); err != nil {
				break
			}
			bad := ""
			for _, z := range []string{"z0", "z1"} {
				want := 0
				for i := 0; i < all.Elem().Len(); i++ {
					if _, row := adb.RowOf("Pair", all.Elem().Index(i).Interface()); row["zone"].A.S == z {
						want++
					}
				}
				probe := adb.NewModel("Pair", "", nil)
				res := reflect.New(reflect.SliceOf(reflect.PtrTo(pairType)))
				err := a.WhereAll(probe, model.Condition{Field: fieldPtrs(adb, "Pair", probe, []string{"zone"})[0], Function: ovsdb.ConditionEqual, Value: z}).List(fctx, res.Interface())
				if got := res.Elem().Len(); err == nil && got != want {
					bad = fmt.Sprintf("zone == %s selects %d rows through the client index, %d rows of the cache hold it", z, got, want)
				}
			}
			if bad == "" {
				break
			}
			if try >= 20 { // (a last notification may have been on its way)
				r.Violation("live", cs, bad, "the index finds the rows", true, "after concurrent reads a client index no longer finds the rows that hold a value", "")
				return
			}
			time.Sleep(10 * time.Millisecond)
		}
	}
}

// c18AfterFailure: a quiet database (nobody commits while the calls are made), every API call failing in
// each way it can fail, each failure followed by calls that must still work: a read returns at once (not
// when its context expires) and a transaction committed afterwards shows up in the cache.
func c18AfterFailure(r *Run, h int) {
	rng := r.Rng
	ts := c18Schema()
	rig, err := newRig(ts)
	if err != nil {
		return
	}
	defer rig.Close()
	ctx, cancel := ctxT(60 * time.Second)
	defer cancel()
	row := pairRow(0)
	row["key"] = VA(AS("r1"))
	rig.im.transact([]OperationJ{{Op: "insert", Table: "Pair", UUID: mkUUID(1), Row: row}}, nil)
	writer, _, err := rig.newClient(rig.endpoint())
	if err != nil || writer.Connect(ctx) != nil {
		return
	}
	defer writer.Close()
	var opts []client.Option
	if rng.Intn(2) == 0 {
		opts = append(opts, client.WithReconnect(2*time.Second, backoff.NewConstantBackOff(2*time.Millisecond)))
	}
	a, adb, err := rig.newClient(rig.endpoint(), opts...)
	if err != nil || a.Connect(ctx) != nil {
		return
	}
	defer a.Close()
	method := monitorMethods[rng.Intn(3)]
	if _, err := a.Monitor(ctx, &client.Monitor{Method: method, Tables: []client.TableMonitor{{Table: "Pair"}}, LastTransactionID: "00000000-0000-0000-0000-000000000000"}); err != nil {
		return
	}
	var failures []string
	cs := map[string]interface{}{"run": h, "method": method, "failures": &failures}
	version := int64(10)
	for step := 0; step < 4; step++ {
		kind := []string{"monitor-no-tables", "monitor-unknown-table", "monitor-cancelled-context", "monitor-cancel-unknown", "transact-cancelled-context", "get-unknown-row", "echo-cancelled-context"}[rng.Intn(7)]
		failures = append(failures, kind)
		cctx, cc := context.WithCancel(context.Background())
		var ferr error
		switch kind {
		case "monitor-no-tables":
			_, ferr = a.Monitor(ctx, &client.Monitor{Method: method})
		case "monitor-unknown-table":
			_, ferr = a.Monitor(ctx, &client.Monitor{Method: method, Tables: []client.TableMonitor{{Table: "NoSuchTable"}}})
		case "monitor-cancelled-context":
			cc()
			_, ferr = a.Monitor(cctx, &client.Monitor{Method: method, Tables: []client.TableMonitor{{Table: "Other"}}, LastTransactionID: "00000000-0000-0000-0000-000000000000"})
		case "monitor-cancel-unknown":
			ferr = a.MonitorCancel(ctx, client.MonitorCookie{DatabaseName: "db", ID: "nosuchmonitor"})
		case "transact-cancelled-context":
			cc()
			_, ferr = a.Transact(cctx, OperationJ{Op: "select", Table: "Pair"}.toOvs())
		case "get-unknown-row":
			ferr = a.Get(ctx, adb.NewModel("Pair", mkUUID(999), nil))
		case "echo-cancelled-context":
			cc()
			ferr = a.Echo(cctx)
		}
		cc()
		r.Count("after-failure:" + kind)
		if ferr == nil && kind != "monitor-cancelled-context" {
			// a call that was meant to fail succeeded: nothing to follow up (not this property's business)
			r.Count("after-failure:did-not-fail")
		}
		// a read with a generous deadline returns at once
		rctx, rc := ctxT(3 * time.Second)
		t0 := time.Now()
		m := adb.NewModel("Pair", mkUUID(1), nil)
		gerr := a.Get(rctx, m)
		took := time.Since(t0)
		rc()
		if took > time.Second {
			r.Violation("after-failure", cs, fmt.Sprintf("Get returned after %v (err=%v)", took, gerr), "an immediate answer", true,
				"after a failed "+kind+" call a read blocks until its context expires", "")
			return
		}
		// and the cache still follows the database
		version++
		wctx, wc := ctxT(3 * time.Second)
		_, werr := writer.Transact(wctx, OperationJ{Op: "update", Table: "Pair", Where: byUUID(mkUUID(1)), Row: pairRow(version)}.toOvs())
		wc()
		if werr != nil {
			return
		}
		cols := map[string][]string{"Pair": nil}
		var got, want string
		for try := 0; try < 400; try++ {
			want = dumpCanon(projectDump(ts.Spec, rig.im.dump(), cols))
			func() {
				defer func() { _ = recover() }()
				got = dumpCanon(projectDump(ts.Spec, cacheDump(a, adb, []string{"Pair"}), cols))
			}()
			if got == want {
				break
			}
			time.Sleep(5 * time.Millisecond)
		}
		if got != want {
			r.Violation("after-failure", cs, diffLines(got, want), "cache = database", true,
				"after a failed "+kind+" call the cache no longer follows the database", "")
			return
		}
	}
	r.Case("after-failure", fmt.Sprint(h))
}

// c18FailedReconnect: a reconnect attempt that fails while the notifications held back during the restart of
// the monitors are applied. The proxy puts, in front of the reply to the first restarted monitor, a
// notification that cannot be applied (a modification of a row the client does not hold): the attempt fails
// after the reply has been applied. The error path must leave nothing behind: the next attempt succeeds,
// reads return at once and committed changes reach the cache.
func c18FailedReconnect(r *Run, h int) {
	rng := r.Rng
	ts := c18Schema()
	rig, err := newRig(ts)
	if err != nil {
		return
	}
	defer rig.Close()
	px, err := newProxy(rig.sock)
	if err != nil {
		return
	}
	defer px.Close()
	ctx, cancel := ctxT(60 * time.Second)
	defer cancel()
	row := pairRow(0)
	row["key"] = VA(AS("r1"))
	rig.im.transact([]OperationJ{{Op: "insert", Table: "Pair", UUID: mkUUID(1), Row: row}}, nil)
	writer, _, err := rig.newClient(rig.endpoint())
	if err != nil || writer.Connect(ctx) != nil {
		return
	}
	defer writer.Close()
	method := monitorMethods[rng.Intn(3)]
	var mu sync.Mutex
	monitorReq := map[string]json.RawMessage{} // session/id -> cookie
	injected, armed := 0, false
	px.rewrite = func(session int, toClient bool, raw json.RawMessage) json.RawMessage {
		var msg struct {
			Method string            `json:"method"`
			ID     json.RawMessage   `json:"id"`
			Params []json.RawMessage `json:"params"`
			Result json.RawMessage   `json:"result"`
		}
		if json.Unmarshal(raw, &msg) != nil {
			return raw
		}
		mu.Lock()
		defer mu.Unlock()
		key := fmt.Sprintf("%d/%s", session, msg.ID)
		if !toClient {
			if strings.HasPrefix(msg.Method, "monitor") && msg.Method != "monitor_cancel" && len(msg.Params) >= 2 {
				monitorReq[key] = msg.Params[1]
			}
			return raw
		}
		if cookie, ok := monitorReq[key]; ok && msg.Method == "" && armed && injected == 0 && len(msg.Result) > 0 && string(msg.Result) != "null" {
			injected++
			var bad string
			if method == "monitor" {
				bad = fmt.Sprintf(`{"method":"update","params":[%s,{"Pair":{"%s":{"old":{"key":"q"},"new":{"key":"zz"}}}}],"id":null}`, cookie, mkUUID(4242))
			} else {
				bad = fmt.Sprintf(`{"method":"update2","params":[%s,{"Pair":{"%s":{"modify":{"key":"zz"}}}}],"id":null}`, cookie, mkUUID(4242))
			}
			return append(append([]byte(bad), '\n'), raw...)
		}
		return raw
	}
	a, adb, err := rig.newClient(px.endpoint(), client.WithReconnect(2*time.Second, backoff.NewConstantBackOff(2*time.Millisecond)))
	if err != nil || a.Connect(ctx) != nil {
		return
	}
	defer a.Close()
	if _, err := a.Monitor(ctx, &client.Monitor{Method: method, Tables: []client.TableMonitor{{Table: "Pair"}}, LastTransactionID: "00000000-0000-0000-0000-000000000000"}); err != nil {
		return
	}
	cs := map[string]interface{}{"run": h, "method": method}
	r.Case("failed-reconnect", fmt.Sprint(h, method))
	mu.Lock()
	armed = true
	mu.Unlock()
	px.cutNow()
	// the client comes back (second attempt at the latest)
	deadline := time.Now().Add(5 * time.Second)
	for time.Now().Before(deadline) {
		mu.Lock()
		done := injected > 0
		mu.Unlock()
		if done && a.Connected() {
			break
		}
		time.Sleep(2 * time.Millisecond)
	}
	mu.Lock()
	cs["notifications_injected"] = injected
	mu.Unlock()
	// a read with a generous deadline returns at once
	got := make(chan error, 1)
	t0 := time.Now()
	go func() {
		rctx, rc := ctxT(3 * time.Second)
		defer rc()
		got <- a.Get(rctx, adb.NewModel("Pair", mkUUID(1), nil))
	}()
	select {
	case gerr := <-got:
		if took := time.Since(t0); took > time.Second {
			r.Violation("failed-reconnect", cs, fmt.Sprintf("Get returned after %v (err=%v)", took, gerr), "an immediate answer", true,
				"after a reconnect attempt that failed while applying the held-back notifications a read blocks until its context expires", "")
			return
		}
	case <-time.After(6 * time.Second):
		r.Violation("failed-reconnect", cs, "Get with a 3s context has not returned after 6s", "an answer", true,
			"after a reconnect attempt that failed while applying the held-back notifications a read never returns", "")
		return
	}
	// a committed change reaches the cache
	nr := pairRow(77)
	_, _ = writer.Transact(ctx, OperationJ{Op: "update", Table: "Pair", Where: byUUID(mkUUID(1)), Row: nr}.toOvs())
	ok := false
	for try := 0; try < 600 && !ok; try++ {
		m := adb.NewModel("Pair", mkUUID(1), nil)
		gctx, gc := ctxT(time.Second)
		if a.Get(gctx, m) == nil {
			_, rowNow := adb.RowOf("Pair", m)
			ok = rowNow["n"] != nil && rowNow["n"].K == 'a' && rowNow["n"].A.I == 77
		}
		gc()
		if !ok {
			time.Sleep(5 * time.Millisecond)
		}
	}
	if !ok {
		r.Violation("failed-reconnect", cs, fmt.Sprintf("Connected()=%v, row not updated after 3s", a.Connected()), "the committed change in the cache", true,
			"after a reconnect attempt that failed while applying the held-back notifications the client does not resynchronise", "")
	}
}

// c18ErrorDuringCut: the client's own reaction to a cache error (handleClientErrors disconnects in order to
// resynchronise) meets a loss of the connection from outside. The proxy replaces a notification by one that
// cannot be applied (a modification of a row the client does not hold) and closes the session a moment
// later, several times in a row: whichever of the two goroutines moves first, the client must come back,
// reads must return at once and committed changes reach the cache.
func c18ErrorDuringCut(r *Run, h int) {
	rng := r.Rng
	ts := c18Schema()
	rig, err := newRig(ts)
	if err != nil {
		return
	}
	defer rig.Close()
	px, err := newProxy(rig.sock)
	if err != nil {
		return
	}
	defer px.Close()
	ctx, cancel := ctxT(60 * time.Second)
	defer cancel()
	row := pairRow(0)
	row["key"] = VA(AS("r1"))
	rig.im.transact([]OperationJ{{Op: "insert", Table: "Pair", UUID: mkUUID(1), Row: row}}, nil)
	writer, _, err := rig.newClient(rig.endpoint())
	if err != nil || writer.Connect(ctx) != nil {
		return
	}
	defer writer.Close()
	method := monitorMethods[1+rng.Intn(2)] // (update2 notifications)
	var mu sync.Mutex
	armed, injected := false, 0
	delay := time.Duration(rng.Intn(3)) * 300 * time.Microsecond
	px.rewrite = func(session int, toClient bool, raw json.RawMessage) json.RawMessage {
		if !toClient {
			return raw
		}
		var msg struct {
			Method string            `json:"method"`
			Params []json.RawMessage `json:"params"`
		}
		if json.Unmarshal(raw, &msg) != nil || msg.Method != "update2" || len(msg.Params) != 2 {
			return raw
		}
		mu.Lock()
		defer mu.Unlock()
		if !armed {
			return raw
		}
		armed = false
		injected++
		go func() { time.Sleep(delay); px.cutNow() }()
		return json.RawMessage(fmt.Sprintf(`{"method":"update2","params":[%s,{"Pair":{"%s":{"modify":{"key":"zz"}}}}],"id":null}`, msg.Params[0], mkUUID(4343)))
	}
	a, adb, err := rig.newClient(px.endpoint(), client.WithReconnect(2*time.Second, backoff.NewConstantBackOff(2*time.Millisecond)))
	if err != nil || a.Connect(ctx) != nil {
		return
	}
	defer a.Close()
	if _, err := a.Monitor(ctx, &client.Monitor{Method: method, Tables: []client.TableMonitor{{Table: "Pair"}}, LastTransactionID: "00000000-0000-0000-0000-000000000000"}); err != nil {
		return
	}
	cs := map[string]interface{}{"run": h, "method": method, "cut_after_us": delay.Microseconds()}
	r.Case("error-during-cut", fmt.Sprint(h, method, delay))
	for round := 0; round < 4; round++ {
		mu.Lock()
		armed = true
		mu.Unlock()
		k := int64(100*h + round + 1)
		_, _ = writer.Transact(ctx, OperationJ{Op: "update", Table: "Pair", Where: byUUID(mkUUID(1)), Row: pairRow(k)}.toOvs())
		// the client comes back and catches up
		got := make(chan bool, 1)
		go func() {
			ok := false
			for try := 0; try < 1200 && !ok; try++ {
				m := adb.NewModel("Pair", mkUUID(1), nil)
				gctx, gc := ctxT(time.Second)
				if a.Get(gctx, m) == nil {
					_, rowNow := adb.RowOf("Pair", m)
					ok = rowNow["n"] != nil && rowNow["n"].K == 'a' && rowNow["n"].A.I == k
				}
				gc()
				if !ok {
					time.Sleep(5 * time.Millisecond)
				}
			}
			got <- ok
		}()
		select {
		case ok := <-got:
			if !ok {
				cs["round"] = round
				r.Violation("error-during-cut", cs, fmt.Sprintf("Connected()=%v, the committed change is not in the cache after 6s", a.Connected()), "the committed change in the cache", true,
					"after a cache error that coincided with the loss of the connection the client does not resynchronise", "")
				return
			}
		case <-time.After(20 * time.Second):
			cs["round"] = round
			r.Violation("error-during-cut", cs, "reads with a 1s context have not returned for 20s", "answers", true,
				"after a cache error that coincided with the loss of the connection the client's calls no longer return", "")
			return
		}
	}
	mu.Lock()
	cs["notifications_replaced"] = injected
	mu.Unlock()
}
