package main

// C16: after losing its connection the client resynchronises completely.
// A fault-injecting proxy cuts the client's session at a chosen message
// boundary (or inside a message); other clients commit while it is away.

import (
	"context"
	"fmt"
	"sort"
	"time"

	"github.com/cenkalti/backoff/v4"
	"github.com/ovn-org/libovsdb/client"
	"github.com/ovn-org/libovsdb/ovsdb"
)

func init() { props["C16"] = runC16 }

type c16Case struct {
	Model    interface{} `json:"model"`
	Monitors []monPlan   `json:"monitors"`
	Cuts     []cutPlan   `json:"cuts"` // per session of the client
	Before   []TxnJ      `json:"before"`
	Away     []TxnJ      `json:"away"` // committed by the writer while the client is cut off
	After    []TxnJ      `json:"after"`
	ExtraCut bool        `json:"extra_cut"` // an on-demand cut after the 'before' transactions
	Markers  int         `json:"markers"`
}

func runC16(r *Run) {
	r.Rule = "a reconnecting client with one or two monitors (any method) behind a proxy that cuts its session after k forwarded messages (k over the whole session: connect, schema fetch, monitor set-up, notifications, a transaction in flight), also inside a message and repeatedly; while it is away a writer commits transactions including deletes of rows the client holds; afterwards the cache is compared with Database.List on every monitored table; marker transactions issued by the client through the cuts must be applied exactly once when they returned results and at most once when they returned an error; non-trivial = case in which at least one cut happened and the database changed while the client was away; distinct by (schema, cuts, transactions). Further streams: a reconnect attempt that fails half-way; a server with a transaction history (the proxy turns update2 into update3 with transaction ids and answers monitor_cond_since with found=true and an empty delta when the client asks with the id it was last sent and nothing changed, found=false and full contents otherwise) over several disconnect rounds; a peer that goes silent without closing anything, which a client with an inactivity check must detect and replace; fail-over between servers with different memories (the proxy numbers the notifications, remembers which rows existed at every id, and answers monitor_cond_since either as a server that has lost its history, found=false with everything, or as one that still has the id asked with, found=true with the rows inserted and deleted since; insert/delete histories, sometimes with nothing committed between two losses of the connection); leader-only mode against two servers with _Server databases between which leadership moves"
	n := 40
	if r.Tier == "thorough" {
		n = 600
	}
	for h := 0; h < n; h++ {
		c16Run(r, h)
	}
	for h := 0; h < n/4+1; h++ {
		c16FailedAttempt(r, h)
	}
	for h := 0; h < n/2; h++ {
		c16Since(r, h)
	}
	for h := 0; h < n/2; h++ {
		c16Failover(r, h)
	}
	for h := 0; h < n/5; h++ {
		if !c16Probe(r, h) {
			break // every further case would wait for the same time-outs
		}
	}
	for h := 0; h < n/5; h++ {
		if !c16Leader(r, h) {
			break
		}
	}
	for h := 0; h < n/5; h++ {
		if !c16LeaderLostEarly(r, h) {
			break
		}
	}
	for h := 0; h < n/4; h++ {
		c16ErrorBurst(r, h)
	}
	for h := 0; h < n/4; h++ {
		c16SilentSchema(r, h)
	}
}

// c16FailedAttempt: a reconnect attempt that fails half-way. The client has two monitors. Its connection
// is cut; during the first reconnect attempt the reply of the first restarted monitor is held (pause point
// monitor.reply-received) while another client inserts a row the client is notified of on that new
// connection; that connection is cut too, the row is deleted behind the client's back, and the attempt
// is let go (it fails at the second monitor). The next attempt must start from scratch: nothing deferred
// on the dead connection may be replayed.
func c16FailedAttempt(r *Run, h int) {
	rng := r.Rng
	ts := genTxnSchema(rng, false)
	// two root tables to monitor separately
	var roots []TableSpec
	for _, t := range ts.Spec.Tables {
		if t.IsRoot {
			roots = append(roots, t)
		}
	}
	if len(roots) < 2 {
		return
	}
	rig, err := newRig(ts)
	if err != nil {
		return
	}
	defer rig.Close()
	px, err := newProxy(rig.sock)
	if err != nil {
		return
	}
	defer px.Close()
	ctx, cancel := ctxT(40 * time.Second)
	defer cancel()
	writer, _, err := rig.newClient(rig.endpoint())
	if err != nil || writer.Connect(ctx) != nil {
		return
	}
	defer writer.Close()
	a, adb, err := rig.newClient(px.endpoint(), client.WithReconnect(2*time.Second, backoff.NewConstantBackOff(3*time.Millisecond)))
	if err != nil || a.Connect(ctx) != nil {
		return
	}
	defer a.Close()
	cols := map[string][]string{roots[0].Name: nil, roots[1].Name: nil}
	plans := []monPlan{{Method: monitorMethods[rng.Intn(3)], Cols: map[string][]string{roots[0].Name: nil}},
		{Method: monitorMethods[rng.Intn(3)], Cols: map[string][]string{roots[1].Name: nil}}}
	cs := map[string]interface{}{"model": ts.modelJSON(), "monitors": plans, "schedule": "failed reconnect attempt"}
	for _, p := range plans {
		if _, err := a.Monitor(ctx, p.monitor()); err != nil {
			return
		}
	}
	ins := func(t TableSpec, n int) OperationJ {
		return OperationJ{Op: "insert", Table: t.Name, UUID: mkUUID(800000 + h*10 + n), Row: Row{"name": VA(AS(fmt.Sprintf("x%d-%d", h, n))), "n": VA(AI(int64(900000 + h*10 + n)))}}
	}
	_, _ = writer.Transact(ctx, ins(roots[0], 0).toOvs(), ins(roots[1], 1).toOvs())
	r.Case("failed-attempt", fmt.Sprint(h))
	pp := pauses.arm("monitor.reply-received")
	px.cutNow() // the client starts reconnecting
	if !pp.waitReached(10 * time.Second) {
		pauses.disarm("monitor.reply-received")
		r.Violation("failed-attempt", cs, "the reconnecting client never restarted a monitor", "", true, "no reconnect attempt", "")
		return
	}
	// rows the client is told about on the connection that is about to die (one per table: whichever monitor was restarted first)
	x0, x1 := ins(roots[0], 2), ins(roots[1], 3)
	_, _ = writer.Transact(ctx, x0.toOvs(), x1.toOvs())
	px.block(true)
	px.cutNow()
	// ... and that disappear again while the client is away
	_, _ = writer.Transact(ctx, OperationJ{Op: "delete", Table: x0.Table, Where: byUUID(x0.UUID)}.toOvs(), OperationJ{Op: "delete", Table: x1.Table, Where: byUUID(x1.UUID)}.toOvs())
	pp.Release()
	time.Sleep(20 * time.Millisecond) // the first attempt fails at its second monitor
	px.block(false)
	deadline := time.Now().Add(8 * time.Second)
	ok := false
	for time.Now().Before(deadline) {
		if a.Connected() {
			ectx, ec := ctxT(time.Second)
			err := a.Echo(ectx)
			ec()
			if err == nil {
				ok = true
				break
			}
		}
		time.Sleep(3 * time.Millisecond)
	}
	if !ok {
		r.Violation("failed-attempt", cs, "not connected after 8s", "connected", true, "the client did not come back after a failed reconnect attempt", "")
		return
	}
	_, _ = writer.Transact(ctx, ins(roots[0], 4).toOvs()) // barrier
	var got, want string
	for try := 0; try < 200; try++ {
		want = dumpCanon(projectDump(ts.Spec, rig.im.dump(), cols))
		got = dumpCanon(projectDump(ts.Spec, cacheDump(a, adb, tablesOf(cols)), cols))
		if got == want {
			break
		}
		time.Sleep(5 * time.Millisecond)
	}
	if got != want {
		r.Violation("failed-attempt", cs, diffLines(got, want), "cache = database", true,
			"after a reconnect attempt that failed half-way the cache does not converge to the database (something deferred on the dead connection was replayed, or lost)", "")
	}
}

func c16Run(r *Run, h int) {
	rng := r.Rng
	ts := genTxnSchema(rng, h%2 == 0)
	rig, err := newRig(ts)
	if err != nil {
		r.Violation("rig", nil, err.Error(), "", false, "cannot start the server", "")
		return
	}
	defer rig.Close()
	px, err := newProxy(rig.sock)
	if err != nil {
		r.Violation("rig", nil, err.Error(), "", false, "cannot start the proxy", "")
		return
	}
	defer px.Close()
	cs := &c16Case{Model: ts.modelJSON()}
	// cut plans: first session cut somewhere in 0..30 messages (or never), maybe a second cut
	k := rng.Intn(32)
	cs.Cuts = []cutPlan{{After: k, Mid: rng.Intn(4) == 0}}
	if rng.Intn(3) == 0 {
		cs.Cuts = append(cs.Cuts, cutPlan{After: rng.Intn(20), Mid: rng.Intn(4) == 0})
	}
	if rng.Intn(5) == 0 {
		cs.Cuts[0].After = -1
	}
	cs.ExtraCut = rng.Intn(2) == 0
	px.setPlans(cs.Cuts...)
	// monitors
	tables := append([]TableSpec{}, ts.Spec.Tables...)
	rng.Shuffle(len(tables), func(i, j int) { tables[i], tables[j] = tables[j], tables[i] })
	nm := 1
	if len(tables) >= 2 && rng.Intn(2) == 0 {
		nm = 2
	}
	cols := map[string][]string{}
	for i := 0; i < nm; i++ {
		p := monPlan{Method: monitorMethods[rng.Intn(3)], Cols: map[string][]string{}}
		var mine []TableSpec
		if nm == 1 {
			mine = tables[:1+rng.Intn(len(tables))]
		} else if i == 0 {
			mine = tables[:1+rng.Intn(len(tables)-1)]
			tables = tables[len(mine):]
		} else {
			mine = tables[:1+rng.Intn(len(tables))]
		}
		for _, t := range mine {
			p.Cols[t.Name] = nil
			cols[t.Name] = nil
		}
		cs.Monitors = append(cs.Monitors, p)
	}
	fail := func(stream, impl, want, why, known string) {
		r.Violation(stream, cs, impl, want, true, why, known)
	}
	ctx, cancel := ctxT(40 * time.Second)
	defer cancel()
	writer, _, err := rig.newClient(rig.endpoint())
	if err != nil || writer.Connect(ctx) != nil {
		r.Violation("rig", nil, fmt.Sprint(err), "", false, "writer cannot connect", "")
		return
	}
	defer writer.Close()
	sh := newShadow()
	commit := func(list *[]TxnJ, n int) {
		for i := 0; i < n; i++ {
			txn := genTxn(rng, ts, sh, 1+rng.Intn(4))
			clampWaits(&txn)
			*list = append(*list, txn)
			_, _ = writer.Transact(ctx, toOvsOps(txn.Ops)...)
			sh.load(rig.im.dump())
		}
	}
	commit(&cs.Before, rng.Intn(3))
	a, adb, err := rig.newClient(px.endpoint(), client.WithReconnect(2*time.Second, backoff.NewConstantBackOff(3*time.Millisecond)))
	if err != nil {
		r.Violation("rig", nil, err.Error(), "", false, "cannot create the client", "")
		return
	}
	defer a.Close()
	// connect: the first session may be cut while connecting; connect again as an application would
	connected := false
	for try := 0; try < 50 && !connected; try++ {
		cctx, ccancel := ctxT(2 * time.Second)
		err = a.Connect(cctx)
		ccancel()
		if err == nil || err == client.ErrAlreadyConnected {
			connected = true
		} else {
			time.Sleep(2 * time.Millisecond)
		}
	}
	if !connected {
		fail("reconnect", fmt.Sprint(err), "connected", "the client never managed to connect although the server is up", "")
		return
	}
	// monitors: a Monitor call that fails because of a cut is repeated, as an application would
	for _, p := range cs.Monitors {
		ok := false
		var lastErr error
		for try := 0; try < 100 && !ok; try++ {
			mctx, mcancel := ctxT(2 * time.Second)
			_, lastErr = a.Monitor(mctx, p.monitor())
			mcancel()
			if lastErr == nil {
				ok = true
			} else {
				time.Sleep(3 * time.Millisecond)
			}
		}
		if !ok {
			fail("reconnect", fmt.Sprint(lastErr), "monitor established", "Monitor never succeeded although the server is up", "")
			return
		}
	}
	// marker transactions by the client itself, interleaved with writer transactions; cuts may hit them
	markerTable := ""
	for _, t := range ts.Spec.Tables {
		if t.IsRoot {
			markerTable = t.Name
			break
		}
	}
	type markerRes struct {
		name string
		ok   bool
	}
	var markers []markerRes
	markerFail := ""
	mark := func() {
		if markerTable == "" {
			return
		}
		name := fmt.Sprintf("marker-%d-%d", h, len(markers))
		op := OperationJ{Op: "insert", Table: markerTable, UUID: mkUUID(700000 + h*100 + len(markers)), Row: Row{"name": VA(AS(name)), "n": VA(AI(int64(500000 + h*100 + len(markers))))}}
		tctx, tcancel := ctxT(3 * time.Second)
		res, err := a.Transact(tctx, op.toOvs())
		tcancel()
		good := err == nil && len(res) > 0
		for _, x := range res {
			if x.Error != "" {
				good = false
			}
		}
		markers = append(markers, markerRes{name, good})
		cs.Markers = len(markers)
		// checked at once: later transactions of the history may legitimately change or delete the row
		n := 0
		for _, row := range rig.im.dump() {
			if v, ok := row.Row["name"]; ok && v.K == 'a' && v.A.S == name {
				n++
			}
		}
		if good && n != 1 {
			markerFail = fmt.Sprintf("%s: Transact returned results, stored %d times", name, n)
		}
		if !good && n > 1 {
			markerFail = fmt.Sprintf("%s: Transact returned an error, stored %d times", name, n)
		}
		if good {
			r.Count("marker:ok")
		} else {
			r.Count(fmt.Sprintf("marker:error(stored %d)", n))
		}
	}
	// the same with a transaction that is not protected by its own uuid or by an index: an increment of the
	// first marker row (applied twice, it shows)
	bump := func() {
		if len(markers) == 0 || markerTable == "" {
			mark()
			return
		}
		u := mkUUID(700000 + h*100)
		read := func() (int64, bool) {
			for _, row := range rig.im.dump() {
				if row.Table == markerTable && row.UUID == u {
					if v, ok := row.Row["n"]; ok && v.K == 'a' {
						return v.A.I, true
					}
				}
			}
			return 0, false
		}
		before, ok := read()
		if !ok {
			mark()
			return
		}
		op := OperationJ{Op: "mutate", Table: markerTable, Where: byUUID(u), Mutations: []MutationJ{{Col: "n", Mutator: "+=", Val: VA(AI(1))}}}
		tctx, tcancel := ctxT(3 * time.Second)
		res, err := a.Transact(tctx, op.toOvs())
		tcancel()
		good := err == nil && len(res) > 0
		for _, x := range res {
			if x.Error != "" {
				good = false
			}
		}
		after, _ := read()
		cs.Markers++
		if good && after-before != 1 {
			markerFail = fmt.Sprintf("increment of %s: Transact returned results, applied %d times", u, after-before)
		}
		if !good && after-before > 1 {
			markerFail = fmt.Sprintf("increment of %s: Transact returned an error, applied %d times", u, after-before)
		}
		if good {
			r.Count("marker:increment ok")
		} else {
			r.Count(fmt.Sprintf("marker:increment error(applied %d)", after-before))
		}
	}
	for i := rng.Intn(4); i > 0; i-- {
		if k := rng.Intn(4); k == 0 {
			mark()
		} else if k == 1 {
			bump()
		} else {
			commit(&cs.Before, 1)
		}
	}
	sessionsBefore := px.sessionCount()
	cutHappened := sessionsBefore > 1
	var trace []map[string]interface{}
	var staleRows []DumpRow
	modelled := false
	if cs.ExtraCut {
		// the server goes away, changes happen behind the client's back, the server comes back
		staleRows = nonNil(projectDump(ts.Spec, cacheDump(a, adb, tablesOf(cols)), cols))
		px.block(true)
		px.cutNow()
		cutHappened = true
		commit(&cs.Away, 1+rng.Intn(3))
		// the client cannot reach the server: it must not report being connected
		stillConnected := true
		for try := 0; try < 100 && stillConnected; try++ {
			stillConnected = a.Connected()
			if stillConnected {
				time.Sleep(2 * time.Millisecond)
			}
		}
		if stillConnected {
			fail("reconnect", "Connected() = true for 200ms after the connection was cut and while the server is unreachable", "Connected() = false",
				"the client reports being connected while it has no connection", "")
			px.block(false)
			return
		}
		// in particular: delete rows the client holds
		d := rig.im.dump()
		var del []OperationJ
		for _, row := range d {
			if _, ok := cols[row.Table]; ok && rng.Intn(2) == 0 && len(del) < 3 {
				del = append(del, OperationJ{Op: "delete", Table: row.Table, Where: []WCondJ{{Col: "_uuid", Fn: "==", Val: VA(AU(row.UUID))}}})
			}
		}
		if len(del) > 0 {
			txn := TxnJ{Ops: del[:1]}
			cs.Away = append(cs.Away, txn)
			_, _ = writer.Transact(ctx, toOvsOps(txn.Ops)...)
			sh.load(rig.im.dump())
		}
		// the monitors are restarted against the database as it is now
		reg := rig.im.dump()
		trace = append(trace, map[string]interface{}{"a": "disconnect"}, map[string]interface{}{"a": "reBegin", "monitors": len(cs.Monitors)})
		for _, p := range cs.Monitors {
			trace = append(trace, map[string]interface{}{"a": "reReply", "monitors": len(cs.Monitors), "found": false,
				"tables": tablesOf(p.Cols), "db": nonNil(projectDump(ts.Spec, reg, p.Cols))})
		}
		trace = append(trace, map[string]interface{}{"a": "reEnd"})
		modelled = true
		sessionsAtCut := px.sessionCount()
		px.block(false)
		// wait for the reconnect so that what follows is handled by the new session
		for try := 0; try < 2000 && px.sessionCount() == sessionsAtCut; try++ {
			time.Sleep(time.Millisecond)
		}
	}
	for i := rng.Intn(3); i > 0; i-- {
		before := rig.im.dump()
		if rng.Intn(2) == 0 {
			mark()
		} else {
			commit(&cs.After, 1)
		}
		trace = append(trace, map[string]interface{}{"a": "notif", "tables": tablesOf(cols),
			"from": nonNil(projectDump(ts.Spec, before, cols)), "to": nonNil(projectDump(ts.Spec, rig.im.dump(), cols))})
	}
	if px.sessionCount() > 1 {
		cutHappened = true
	}
	// quiescence: the client is connected again and an echo goes through
	deadline := time.Now().Add(8 * time.Second)
	settled := false
	for time.Now().Before(deadline) {
		if a.Connected() {
			ectx, ecancel := ctxT(time.Second)
			err := a.Echo(ectx)
			ecancel()
			if err == nil {
				settled = true
				break
			}
		}
		time.Sleep(3 * time.Millisecond)
	}
	key := ""
	if cutHappened && (len(cs.Away) > 0 || len(cs.After) > 0 || len(markers) > 0) {
		key = fmt.Sprint(h)
	}
	r.Case("reconnect", key)
	r.Count(fmt.Sprintf("sessions:%d", px.sessionCount()))
	r.Count(fmt.Sprintf("monitors:%d", len(cs.Monitors)))
	if !settled {
		fail("reconnect", "not connected / echo fails after 8s", "connected", "the client did not come back although the server is reachable", "")
		return
	}
	// one more transaction as a barrier: its notification is handled before Transact returns to the writer
	beforeBarrier := rig.im.dump()
	commit(&cs.After, 1)
	trace = append(trace, map[string]interface{}{"a": "notif", "tables": tablesOf(cols),
		"from": nonNil(projectDump(ts.Spec, beforeBarrier, cols)), "to": nonNil(projectDump(ts.Spec, rig.im.dump(), cols))})
	var want, got string
	for try := 0; try < 200; try++ {
		d := rig.im.dump()
		want = dumpCanon(projectDump(ts.Spec, d, cols))
		got = dumpCanon(projectDump(ts.Spec, cacheDump(a, adb, tablesOf(cols)), cols))
		if got == want {
			break
		}
		time.Sleep(5 * time.Millisecond)
	}
	if got != want {
		known := ""
		fail("reconnect", diffLines(got, want), "cache = database on monitored tables", "after reconnecting the cache does not converge to the database", known)
		return
	}
	if why := cacheIndexesConsistent(a, ts.Spec, tablesOf(cols)); why != "" {
		fail("reconnect", why, "the cache's indexes hold its rows and nothing else",
			"after reconnecting, the indexes of the cache do not match its rows: a lookup by index values finds rows that are gone, or misses rows that are there", "")
		return
	}
	// the protocol model, started from the stale cache the client had when it was cut off; only when no
	// further cut hit the sessions after the modelled one
	if modelled && len(cs.Cuts) == 1 && (cs.Cuts[0].After < 0 || px.sessionCount() <= 3) {
		var mo struct {
			Rows      []DumpRow `json:"rows"`
			Failed    bool      `json:"failed"`
			Deferring bool      `json:"deferring"`
		}
		if err := r.Mdl.Call(map[string]interface{}{"fn": "clientProtocol", "strict": true, "deferring": false, "rows": staleRows, "actions": trace}, &mo); err != nil {
			r.Violation("reconnect-model", cs, "", err.Error(), false, "model driver failed", "")
			return
		}
		r.Case("reconnect-model", "")
		if m := dumpCanon(mo.Rows); m != got || mo.Failed || mo.Deferring {
			r.Violation("reconnect-model", cs, diffLines(got, m), fmt.Sprintf("failed=%v deferring=%v", mo.Failed, mo.Deferring), false,
				"after reconnecting the cache differs from the protocol model's", "")
			return
		}
	}
	if markerFail != "" {
		fail("exactly-once", markerFail, "results: exactly once; error: at most once", "a Transact call through a cut was not applied the number of times its outcome promises", "")
	}
}

var _ = sort.Strings
var _ context.Context
var _ = ovsdb.MonitorRPC
