module verif/harness

go 1.18

require (
	github.com/go-logr/logr v1.2.2
	github.com/google/uuid v1.2.0
	github.com/ovn-org/libovsdb v0.0.0
)

require github.com/go-logr/stdr v1.2.2 // indirect

replace github.com/ovn-org/libovsdb => /repo
