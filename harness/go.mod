module verif/harness

go 1.18

require github.com/ovn-org/libovsdb v0.0.0

require github.com/google/uuid v1.2.0 // indirect

replace github.com/ovn-org/libovsdb => /repo
