module verif/harness

go 1.18

require (
	github.com/cenkalti/backoff/v4 v4.1.3
	github.com/go-logr/logr v1.2.2
	github.com/go-logr/stdr v1.2.2
	github.com/google/uuid v1.2.0
	github.com/ovn-org/libovsdb v0.0.0
)

require (
	github.com/beorn7/perks v1.0.1 // indirect
	github.com/cenkalti/hub v1.0.1 // indirect
	github.com/cenkalti/rpc2 v0.0.0-20210604223624-c1acbc6ec984 // indirect
	github.com/cespare/xxhash/v2 v2.1.2 // indirect
	github.com/davecgh/go-spew v1.1.1 // indirect
	github.com/golang/protobuf v1.5.2 // indirect
	github.com/matttproud/golang_protobuf_extensions v1.0.1 // indirect
	github.com/pmezard/go-difflib v1.0.0 // indirect
	github.com/prometheus/client_golang v1.12.1 // indirect
	github.com/prometheus/client_model v0.2.0 // indirect
	github.com/prometheus/common v0.32.1 // indirect
	github.com/prometheus/procfs v0.7.3 // indirect
	github.com/stretchr/testify v1.8.0 // indirect
	golang.org/x/sys v0.18.0 // indirect
	golang.org/x/text v0.14.0 // indirect
	google.golang.org/protobuf v1.33.0 // indirect
	gopkg.in/yaml.v3 v3.0.1 // indirect
)

replace github.com/ovn-org/libovsdb => /repo
