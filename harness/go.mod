module verif/harness

go 1.18

require (
	github.com/go-logr/logr v1.2.2
	github.com/go-logr/stdr v1.2.2
	github.com/google/uuid v1.2.0
	github.com/ovn-org/libovsdb v0.0.0
)

require (
	github.com/cenkalti/hub v1.0.1 // indirect
	github.com/cenkalti/rpc2 v0.0.0-20210604223624-c1acbc6ec984 // indirect
)

replace github.com/ovn-org/libovsdb => /repo
