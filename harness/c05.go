package main

// C05: cache indexes agree with cache contents, in every application order.

import (
	"fmt"
	"math/rand"
	"reflect"
	"sort"
	"strings"

	"github.com/go-logr/logr"
	"github.com/ovn-org/libovsdb/cache"
	"github.com/ovn-org/libovsdb/model"
)

func init() { props["C05"] = runC05 }

var c05Table = TableSpec{Name: "T", IsRoot: true, Cols: []ColSpec{
	{Name: "name", Type: ColType{Kind: "atom", Key: "string", Min: 1, Max: 1}},
	{Name: "n", Type: ColType{Kind: "atom", Key: "integer", Min: 1, Max: 1}},
	{Name: "tag", Type: ColType{Kind: "opt", Key: "string", Min: 0, Max: 1}},
	{Name: "x", Type: ColType{Kind: "opt", Key: "integer", Min: 0, Max: 1}},
	{Name: "t2", Type: ColType{Kind: "opt", Key: "string", Min: 0, Max: 1}}, // a second optional of the type of "tag"
	{Name: "m", Type: ColType{Kind: "map", Key: "string", Val: "string", Min: 0, Max: -1}},
	{Name: "s", Type: ColType{Kind: "set", Key: "string", Min: 0, Max: -1}},
}}

type CKey struct {
	Col  string `json:"col"`
	Key  *Atom  `json:"key"`
	Zero Atom   `json:"zero"`
}

type ISpec struct {
	Name   string `json:"name"`
	Cols   []CKey `json:"cols"`
	Schema bool   `json:"schema"`
}

func ck(col string) CKey       { return CKey{Col: col, Zero: AS("")} }
func ckk(col, key string) CKey { k := AS(key); return CKey{Col: col, Key: &k, Zero: AS("")} }
func indexName(cols []CKey) string {
	seen := map[string]bool{}
	var names []string
	for _, c := range cols {
		n := c.Col
		if c.Key != nil {
			n = fmt.Sprintf("%s|%v", c.Col, nativeOfAtom(*c.Key))
		}
		if !seen[n] {
			seen[n] = true
			names = append(names, n)
		}
	}
	sort.Strings(names)
	return strings.Join(names, ",")
}

// {"s"}, {"name","s"}, ck("s"), ck("m"): a set or a map column used whole (its value is unordered)
var schemaIndexChoices = [][]string{{"name"}, {"n"}, {"name", "n"}, {"tag"}, {"tag", "x"}, {"name", "tag"}, {"x"}, {"s"}, {"name", "s"}, {"tag", "t2"}, {"tag", "t2"}}
var clientIndexChoices = [][]CKey{{ck("name")}, {ck("tag")}, {ck("n")}, {ckk("m", "k1")}, {ckk("m", "k1"), ck("n")}, {ck("x")},
	{ck("name"), ckk("m", "k2")}, {ck("tag"), ck("x")}, {ckk("m", "k1"), ckk("m", "k2")}, {ck("s")}, {ck("m")}, {ck("s"), ck("n")}, {ck("tag"), ck("t2")}, {ck("t2"), ckk("m", "k1")}}

// wholeCollection: the spec has a set or map column used without a key
func wholeCollection(sp ISpec) bool {
	for _, c := range sp.Cols {
		if c.Key == nil && (c.Col == "s" || c.Col == "m") {
			return true
		}
	}
	return false
}

type idxConfig struct {
	schema [][]string
	client [][]CKey
	specs  []ISpec // as newRowCache builds them
}

func genIdxConfig(rng *rand.Rand) idxConfig {
	var c idxConfig
	for i := rng.Intn(3); i > 0; i-- {
		c.schema = append(c.schema, schemaIndexChoices[rng.Intn(len(schemaIndexChoices))])
	}
	for i := rng.Intn(4); i > 0; i-- {
		c.client = append(c.client, clientIndexChoices[rng.Intn(len(clientIndexChoices))])
	}
	c.build()
	return c
}

func (c *idxConfig) build() {
	c.specs = nil
	seen := map[string]bool{}
	for _, cols := range c.schema {
		var cks []CKey
		for _, col := range cols {
			cks = append(cks, ck(col))
		}
		name := indexName(cks)
		// newRowCache appends every schema index (duplicates share one map)
		if seen[name] {
			continue
		}
		seen[name] = true
		c.specs = append(c.specs, ISpec{Name: name, Cols: cks, Schema: true})
	}
	for _, cks := range c.client {
		name := indexName(cks)
		if seen[name] {
			continue
		}
		seen[name] = true
		c.specs = append(c.specs, ISpec{Name: name, Cols: cks, Schema: false})
	}
}

func (c idxConfig) clientIndexes() map[string][]model.ClientIndex {
	var out []model.ClientIndex
	for _, cks := range c.client {
		var cols []model.ColumnKey
		for _, k := range cks {
			ckey := model.ColumnKey{Column: k.Col}
			if k.Key != nil {
				ckey.Key = nativeOfAtom(*k.Key)
			}
			cols = append(cols, ckey)
		}
		out = append(out, model.ClientIndex{Columns: cols})
	}
	if len(out) == 0 {
		return nil
	}
	return map[string][]model.ClientIndex{"T": out}
}

// idxValOf: independent Go computation of a row's index value (canonical string)
func idxValOf(spec ISpec, row Row) string {
	var parts []string
	for _, c := range spec.Cols {
		v := row[c.Col]
		switch {
		case v == nil:
		case v.K == 'a' && c.Key == nil:
			parts = append(parts, v.A.Key())
		case v.K == 'o' && c.Key == nil:
			if v.O != nil {
				parts = append(parts, v.O.Key())
			} else if len(spec.Cols) > 1 {
				parts = append(parts, "-") // an unset optional is a component of the tuple like any other
			}
		case v.K == 'M' && c.Key != nil:
			val := c.Zero
			for _, p := range v.M {
				if p[0].Key() == c.Key.Key() {
					val = p[1]
					break
				}
			}
			parts = append(parts, val.Key())
		case v.K == 'S' && c.Key == nil:
			seen := map[string]bool{}
			var es []string
			for _, a := range v.S {
				if !seen[a.Key()] {
					seen[a.Key()] = true
					es = append(es, a.Key())
				}
			}
			sort.Strings(es)
			parts = append(parts, "S{"+strings.Join(es, ";")+"}")
		case v.K == 'M' && c.Key == nil:
			var es []string
			for _, p := range v.M {
				es = append(es, p[0].Key()+"="+p[1].Key())
			}
			sort.Strings(es)
			parts = append(parts, "M{"+strings.Join(es, ";")+"}")
		}
	}
	return "[" + strings.Join(parts, ",") + "]"
}

var c05UUIDs = []string{"u1", "u2", "u3", "u4", "u5", "u6"}

func genC05Row(rng *rand.Rand) Row {
	names := []string{"a", "b", "c", "d"}
	tags := []*Atom{nil, {K: 's', S: "t1"}, {K: 's', S: "t2"}}
	xs := []*Atom{nil, {K: 'i', I: 0}, {K: 'i', I: 1}}
	mvals := []string{"", "v1", "v2", "v1, k2: v2"}
	m := [][2]Atom{}
	for _, k := range []string{"k1", "k2"} {
		if rng.Intn(2) == 0 {
			m = append(m, [2]Atom{AS(k), AS(mvals[rng.Intn(3)])})
		}
	}
	s := []Atom{}
	for _, i := range rng.Perm(5) {
		// (the empty string and an element that reads like two: a set of them is not the empty set, nor the set
		// of the two)
		if rng.Intn(5) < 2 {
			s = append(s, AS([]string{"e", "f", "g", "", "e, f"}[i]))
		}
	}
	return Row{
		"name": VA(AS(names[rng.Intn(len(names))])),
		"n":    VA(AI(int64(rng.Intn(3)))),
		"tag":  VO(tags[rng.Intn(3)]),
		"t2":   VO(tags[rng.Intn(3)]),
		"x":    VO(xs[rng.Intn(3)]),
		"m":    &Value{K: 'M', M: m},
		"s":    &Value{K: 'S', S: s},
	}
}

type RowOpJ struct {
	Op   string `json:"op"`
	UUID string `json:"uuid"`
	Row  Row    `json:"row,omitempty"`
}

type probeJ struct {
	UUID      string `json:"uuid"`
	Row       Row    `json:"row"`
	UseClient bool   `json:"useClient"`
}

type batchJ struct {
	Ops    []RowOpJ `json:"ops"`
	Probes []probeJ `json:"probes"`
}

func schemaUnique(cfg idxConfig, table map[string]Row) bool {
	for _, sp := range cfg.specs {
		if !sp.Schema {
			continue
		}
		seen := map[string]bool{}
		for _, r := range table {
			v := idxValOf(sp, r)
			if seen[v] {
				return false
			}
			seen[v] = true
		}
	}
	return true
}

// genBatch draws a batch (each uuid at most once) whose final state has no
// duplicate schema-index value; biased towards indexed values moving between rows.
func genBatch(rng *rand.Rand, cfg idxConfig, table map[string]Row) ([]RowOpJ, map[string]Row) {
	for attempt := 0; attempt < 200; attempt++ {
		final := map[string]Row{}
		for u, r := range table {
			final[u] = r
		}
		var ops []RowOpJ
		perm := rng.Perm(len(c05UUIDs))
		n := 1 + rng.Intn(5)
		touched := perm[:n]
		// hand-over bias: two existing rows swap / shift their full contents
		var existing []string
		for _, i := range touched {
			if _, ok := table[c05UUIDs[i]]; ok {
				existing = append(existing, c05UUIDs[i])
			}
		}
		handled := map[string]bool{}
		if len(existing) >= 2 && rng.Intn(2) == 0 {
			a, b := existing[0], existing[1]
			ra, rb := table[a].Clone(), table[b].Clone()
			if rng.Intn(2) == 0 { // swap
				final[a], final[b] = rb, ra
			} else { // shift: b takes a's values, a gets fresh ones
				final[b] = ra
				final[a] = genC05Row(rng)
			}
			ops = append(ops, RowOpJ{Op: "update", UUID: a, Row: final[a]}, RowOpJ{Op: "update", UUID: b, Row: final[b]})
			handled[a], handled[b] = true, true
		}
		for _, i := range touched {
			u := c05UUIDs[i]
			if handled[u] {
				continue
			}
			if _, ok := table[u]; ok {
				if rng.Intn(3) == 0 {
					delete(final, u)
					ops = append(ops, RowOpJ{Op: "delete", UUID: u})
				} else {
					nr := genC05Row(rng)
					if rng.Intn(2) == 0 { // change only some columns
						old := table[u]
						for _, c := range []string{"name", "n", "tag", "x", "m", "s"} {
							if rng.Intn(2) == 0 {
								nr[c] = cloneValue(old[c])
							}
						}
					}
					final[u] = nr
					ops = append(ops, RowOpJ{Op: "update", UUID: u, Row: nr})
				}
			} else {
				nr := genC05Row(rng)
				final[u] = nr
				ops = append(ops, RowOpJ{Op: "create", UUID: u, Row: nr})
			}
		}
		if schemaUnique(cfg, final) {
			rng.Shuffle(len(ops), func(i, j int) { ops[i], ops[j] = ops[j], ops[i] })
			return ops, final
		}
	}
	return nil, table
}

// orderedUpdate implements the cache's (unexported) cacheUpdate interface with a
// chosen iteration order.
type orderedUpdate struct {
	db    *DB
	ops   []RowOpJ
	table map[string]Row // state before the batch
	// the models handed to the cache, kept by the caller (who is free to go on using them)
	handed *[]model.Model
}

var c05NilToggle int

func (o orderedUpdate) GetUpdatedTables() []string { return []string{"T"} }
func (o orderedUpdate) ForEachModelUpdate(table string, do func(uuid string, old, new model.Model) error) error {
	for _, op := range o.ops {
		var old, new model.Model
		if r, ok := o.table[op.UUID]; ok {
			old = o.db.NewModel("T", op.UUID, r)
		}
		if op.Op != "delete" {
			// (every other model comes with nil instead of empty collections, as decoded rows do when a column
			// is absent: the same row as far as the cache and its indexes go)
			c05NilToggle++
			nativeNilEmpty = c05NilToggle%2 == 1
			new = o.db.NewModel("T", op.UUID, op.Row)
			nativeNilEmpty = false
		}
		if o.handed != nil {
			if old != nil {
				*o.handed = append(*o.handed, old)
			}
			if new != nil {
				*o.handed = append(*o.handed, new)
			}
		}
		if err := do(op.UUID, old, new); err != nil {
			return err
		}
	}
	return nil
}

func canonKeyOfIndexKey(k interface{}) string {
	rv := reflect.ValueOf(k)
	if !rv.IsValid() {
		return "[]"
	}
	if rv.Kind() == reflect.Ptr {
		if rv.IsNil() {
			return "[]"
		}
		rv = rv.Elem()
	}
	switch rv.Kind() {
	case reflect.String:
		return "[s:" + rv.String() + "]"
	case reflect.Int:
		return "[" + AI(rv.Int()).Key() + "]"
	}
	return fmt.Sprintf("[?%v]", k)
}

func groupsCanon(groups map[string][]string, withKeys bool) string {
	var parts []string
	for k, us := range groups {
		sort.Strings(us)
		if withKeys {
			parts = append(parts, k+"->"+strings.Join(us, "+"))
		} else {
			parts = append(parts, strings.Join(us, "+"))
		}
	}
	sort.Strings(parts)
	return strings.Join(parts, " ; ")
}

type cacheStepJ struct {
	Err   *string `json:"err"`
	Cache struct {
		Ixs  [][][2]jsonRaw `json:"ixs"`
		Rows [][2]jsonRaw   `json:"rows"`
	} `json:"cache"`
	Probes [][]string `json:"probes"`
}

func atomsKey(as []Atom) string {
	parts := make([]string, len(as))
	for i, a := range as {
		parts[i] = a.Key()
	}
	return "[" + strings.Join(parts, ",") + "]"
}

// c05History runs one history on the implementation, checks the oracle after
// every batch and compares with the model. Returns false on violation.
func c05History(r *Run, cfg idxConfig, batches [][]RowOpJ, stream string) bool {
	spec := SchemaSpec{Name: "db", Tables: []TableSpec{c05Table}}
	spec.Tables[0].Indexes = cfg.schema
	db, err := BuildDB(spec, cfg.clientIndexes())
	if err != nil {
		panic(err)
	}
	logger := logr.Discard()
	tc, err := cache.NewTableCache(db.Model, nil, &logger)
	if err != nil {
		panic(err)
	}
	table := map[string]Row{}
	var req []batchJ
	type implStep struct {
		groups []string // per spec, canonical groups
		probes []string
	}
	var impl []implStep
	caseJSON := map[string]interface{}{"specs": cfg.specs, "schema_indexes": cfg.schema}
	for bi, ops := range batches {
		var handed []model.Model
		upd := orderedUpdate{db: db, ops: ops, table: table, handed: &handed}
		var applyErr error
		func() {
			defer func() {
				if p := recover(); p != nil {
					applyErr = fmt.Errorf("panic: %v", p)
				}
			}()
			applyErr = tc.ApplyCacheUpdate(upd)
		}()
		// the caller goes on using the models it handed over (every second batch): the cache holds its own
		// copies, neither its rows nor its indexes may follow
		if bi%2 == 1 {
			for _, m := range handed {
				mutateModel(m)
			}
			caseJSON["caller_rewrites_its_models_after_batch"] = bi
		}
		// shadow table
		next := map[string]Row{}
		for u, row := range table {
			next[u] = row
		}
		for _, op := range ops {
			if op.Op == "delete" {
				delete(next, op.UUID)
			} else {
				next[op.UUID] = op.Row
			}
		}
		table = next
		b := batchJ{Ops: ops, Probes: []probeJ{}}
		caseJSON["batches"] = append(req, b)
		if applyErr != nil {
			r.Violation(stream, caseJSON, applyErr.Error(), "", true, fmt.Sprintf("batch %d: applying a consistent batch failed", bi), "")
			return false
		}
		rc := tc.Table("T")
		// rows must equal the shadow
		got := map[string]Row{}
		for u, m := range rc.Rows() {
			_, row := db.RowOf("T", m)
			got[u] = row
		}
		if canonTable(got) != canonTable(table) {
			r.Violation(stream, caseJSON, canonTable(got), canonTable(table), true, fmt.Sprintf("batch %d: cache rows differ from the rows applied", bi), "")
			return false
		}
		// oracle: every index equals the scan
		st := implStep{}
		indexErr := ""
		checkIndexes := func(stage string, record bool) bool {
			for _, sp := range cfg.specs {
				cols := strings.Split(sp.Name, ",")
				idx, err := rc.Index(cols...)
				if err != nil {
					// the index cannot be read by its columns: the lookups below still go through it
					if indexErr == "" {
						indexErr = fmt.Sprintf("Index(%v): %v", cols, err)
					}
					if record {
						st.groups = append(st.groups, "")
					}
					continue
				}
				single := len(sp.Cols) == 1 && !wholeCollection(sp) // (the key of a whole set or map is the code's own rendering)
				implG := map[string][]string{}
				for k, us := range idx {
					key := fmt.Sprintf("%v", k)
					if single {
						key = canonKeyOfIndexKey(k)
					}
					implG[key] = append([]string{}, us...)
				}
				scanG := map[string][]string{}
				for u, row := range table {
					v := idxValOf(sp, row)
					scanG[v] = append(scanG[v], u)
				}
				ig, sg := groupsCanon(implG, single), groupsCanon(scanG, single)
				if ig != sg {
					r.Violation(stream, caseJSON, ig, sg, true,
						fmt.Sprintf("batch %d%s: index %q (schema=%v) differs from a full scan of the cache", bi, stage, sp.Name, sp.Schema), "")
					return false
				}
				if record {
					st.groups = append(st.groups, groupsCanon(implG, false))
				}
			}
			return true
		}
		if !checkIndexes("", true) {
			return false
		}
		// direct calls that are refused: a checked Create (and Update) of a row that collides with a stored row on
		// ONE of the schema indexes and is fresh on the others must fail as a whole: rows and indexes as before
		var schemaSpecs []ISpec
		for _, sp := range cfg.specs {
			if sp.Schema && !wholeCollection(sp) {
				schemaSpecs = append(schemaSpecs, sp)
			}
		}
		if len(table) > 0 && len(schemaSpecs) > 0 {
			us := make([]string, 0, len(table))
			for u := range table {
				us = append(us, u)
			}
			sort.Strings(us)
			for k := 0; k < 2; k++ {
				victim := table[us[r.Rng.Intn(len(us))]]
				sp := schemaSpecs[r.Rng.Intn(len(schemaSpecs))]
				row := genC05Row(r.Rng)
				row["name"] = VA(AS(fmt.Sprintf("fresh%d", r.Rng.Intn(1000000))))
				row["n"] = VA(AI(int64(100000 + r.Rng.Intn(1000000))))
				tg := Atom{K: 's', S: fmt.Sprintf("ft%d", r.Rng.Intn(1000000))}
				row["tag"] = VO(&tg)
				xv := Atom{K: 'i', I: int64(200000 + r.Rng.Intn(1000000))}
				row["x"] = VO(&xv)
				for _, c := range sp.Cols {
					row[c.Col] = victim[c.Col]
				}
				var cerr error
				kind := "create"
				func() {
					defer func() {
						if p := recover(); p != nil {
							cerr = fmt.Errorf("panic: %v", p)
						}
					}()
					if r.Rng.Intn(2) == 0 || len(us) < 2 {
						cerr = rc.Create("u-refused", db.NewModel("T", "u-refused", row), true)
					} else {
						kind = "update"
						// another stored row takes the victim's values in that index
						other := us[r.Rng.Intn(len(us))]
						if idxValOf(sp, table[other]) == idxValOf(sp, victim) {
							return
						}
						_, cerr = rc.Update(other, db.NewModel("T", other, row), true)
					}
				}()
				caseJSON["refused_"+kind+"_after_batch"] = map[string]interface{}{"batch": bi, "row": row, "collides_on": sp.Name}
				if cerr == nil {
					// (an Update that does not collide after all: the victim is the row itself) put things back
					continue
				}
				if strings.HasPrefix(cerr.Error(), "panic") {
					r.Violation(stream, caseJSON, cerr.Error(), "an error", true, fmt.Sprintf("batch %d: a refused %s panicked", bi, kind), "")
					return false
				}
				got := map[string]Row{}
				for u, m := range rc.Rows() {
					_, rw := db.RowOf("T", m)
					got[u] = rw
				}
				if canonTable(got) != canonTable(table) {
					r.Violation(stream, caseJSON, canonTable(got), canonTable(table), true, fmt.Sprintf("batch %d: a refused %s changed the rows of the cache", bi, kind), "")
					return false
				}
				if !checkIndexes(fmt.Sprintf(" (after a refused checked %s)", kind), false) {
					return false
				}
				delete(caseJSON, "refused_"+kind+"_after_batch")
			}
		}
		// reads must leave the indexes alone: conditional lookups pairing an equality on an indexed column
		// (taken from a stored row, so several rows may share it) with a second condition that keeps only
		// some of those rows; the indexes are compared with the scan again afterwards
		if len(table) > 0 && len(cfg.specs) > 0 {
			var reads [][]CondJ
			us := make([]string, 0, len(table))
			for u := range table {
				us = append(us, u)
			}
			sort.Strings(us)
			for k := 0; k < 3; k++ {
				src := table[us[r.Rng.Intn(len(us))]]
				other := table[us[r.Rng.Intn(len(us))]]
				sp := cfg.specs[r.Rng.Intn(len(cfg.specs))]
				var conds []CondJ
				spCols := sp.Cols
				if len(spCols) > 1 && r.Rng.Intn(2) == 0 {
					// only some of the index's columns / keys: the index must not be used as if all were given
					k := r.Rng.Intn(len(spCols))
					spCols = spCols[k : k+1]
				}
				for _, c := range spCols {
					if c.Key != nil {
						v := &Value{K: 'M'}
						for _, p := range src[c.Col].M {
							if p[0].Key() == c.Key.Key() {
								v.M = append(v.M, p)
							}
						}
						if len(v.M) > 0 {
							conds = append(conds, CondJ{Col: c.Col, Fn: "includes", Val: v})
						}
					} else {
						cond := CondJ{Col: c.Col, Fn: "==", Val: cloneValue(src[c.Col])}
						if t := c05Table.Col(c.Col); t != nil && t.Type.Kind != "atom" && r.Rng.Intn(3) == 0 {
							// on an optional, set or map column of an index: includes / excludes, also of nothing (every
							// row includes the empty set; an index answers equality, not inclusion)
							cond.Fn = []string{"includes", "excludes"}[r.Rng.Intn(2)]
							if r.Rng.Intn(2) == 0 {
								cond.Val = zeroValue(t.Type)
							}
						}
						conds = append(conds, cond)
					}
				}
				switch r.Rng.Intn(4) {
				case 3: // no narrowing condition
				case 0:
					conds = append(conds, CondJ{Col: "_uuid", Fn: "==", Val: VA(AU(us[r.Rng.Intn(len(us))]))})
				case 1:
					conds = append(conds, CondJ{Col: "n", Fn: []string{"==", "!=", "<"}[r.Rng.Intn(3)], Val: cloneValue(other["n"])})
				default:
					conds = append(conds, CondJ{Col: "name", Fn: []string{"==", "!="}[r.Rng.Intn(2)], Val: cloneValue(other["name"])})
				}
				if len(conds) == 0 {
					continue
				}
				if r.Rng.Intn(2) == 0 {
					conds[0], conds[len(conds)-1] = conds[len(conds)-1], conds[0]
				}
				reads = append(reads, conds)
				got, gerr := queryImpl(db, rc, conds)
				// ... and return what a scan returns
				var want []string
				typed := true
				for _, u := range us {
					all := true
					for _, c := range conds {
						cv := table[u][c.Col]
						if c.Col == "_uuid" {
							cv = VA(AU(u))
						}
						ok, def := rfcEval(c.Fn, cv, c.Val)
						typed = typed && def
						all = all && ok
					}
					if all {
						want = append(want, u)
					}
				}
				if typed && (gerr != "" || strings.Join(got, "+") != strings.Join(want, "+")) {
					r.Violation(stream, map[string]interface{}{"case": caseJSON, "conditions": conds}, gerr+strings.Join(got, "+"), strings.Join(want, "+"), true,
						fmt.Sprintf("batch %d: a conditional lookup (Where) through the indexes differs from a scan", bi), "")
					return false
				}
			}
			caseJSON["reads_after_batch"] = reads
			if !checkIndexes(" (after conditional reads that followed it)", false) {
				return false
			}
			delete(caseJSON, "reads_after_batch")
		}
		// lookups: probes per spec built from an existing row or random values
		for _, sp := range cfg.specs {
			var src Row
			for _, row := range table {
				src = row
				break
			}
			if src == nil || r.Rng.Intn(3) == 0 {
				src = genC05Row(r.Rng)
			}
			probe := Row{}
			for _, c := range c05Table.Cols {
				probe[c.Name] = zeroValue(c.Type)
			}
			for _, c := range sp.Cols {
				probe[c.Col] = cloneValue(src[c.Col])
			}
			useClient := r.Rng.Intn(2) == 0
			b.Probes = append(b.Probes, probeJ{UUID: "", Row: probe, UseClient: useClient})
			pm := db.NewModel("T", "", probe)
			var res map[string]model.Model
			var perr error
			if useClient {
				res, perr = rc.RowsByModels([]model.Model{pm})
			} else {
				var u string
				var m model.Model
				u, m, perr = rc.RowByModel(pm)
				if m != nil {
					res = map[string]model.Model{u: m}
				}
			}
			if perr != nil {
				r.Violation(stream, caseJSON, perr.Error(), "", false, "lookup by model failed", "")
				return false
			}
			var us []string
			for u := range res {
				us = append(us, u)
			}
			sort.Strings(us)
			// oracle: first index (schema first; client only if allowed) whose scan is non-empty
			var want []string
			for _, sp2 := range cfg.specs {
				if !sp2.Schema && !useClient {
					break
				}
				pv := idxValOf(sp2, probe)
				for u, row := range table {
					if idxValOf(sp2, row) == pv {
						want = append(want, u)
					}
				}
				if len(want) > 0 {
					break
				}
			}
			sort.Strings(want)
			if strings.Join(us, "+") != strings.Join(want, "+") {
				r.Violation(stream, map[string]interface{}{"case": caseJSON, "probe": probe, "useClient": useClient}, us, want, true,
					fmt.Sprintf("batch %d: lookup by model through the indexes differs from a scan", bi), "")
				return false
			}
			st.probes = append(st.probes, strings.Join(us, "+"))
		}
		req = append(req, b)
		caseJSON["batches"] = req
		impl = append(impl, st)
		if indexErr != "" {
			r.Violation(stream, caseJSON, indexErr, "", false, "Index() rejects a configured index", "")
			return false
		}
	}
	// model
	var res struct {
		Steps []cacheStepJ `json:"steps"`
	}
	if err := r.Mdl.Call(map[string]interface{}{"fn": "cacheHistory", "specs": cfg.specs, "batches": req}, &res); err != nil {
		r.Violation(stream, caseJSON, "", err.Error(), false, "model driver failed", "")
		return false
	}
	if len(res.Steps) != len(impl) {
		r.Violation(stream, caseJSON, len(impl), len(res.Steps), false, "model rejected a batch the implementation accepted", "")
		return false
	}
	for bi, st := range res.Steps {
		if st.Err != nil {
			r.Violation(stream, caseJSON, "ok", *st.Err, false, fmt.Sprintf("batch %d: model reports an error", bi), "")
			return false
		}
		for si := range cfg.specs {
			mg := map[string][]string{}
			for _, e := range st.Cache.Ixs[si] {
				// the key is only a label here (groups are compared without their keys)
				var us []string
				mustUnmarshal(e[1], &us)
				mg[string(e[0])] = us
			}
			if g := groupsCanon(mg, false); g != impl[bi].groups[si] {
				r.Violation(stream, caseJSON, impl[bi].groups[si], g, false,
					fmt.Sprintf("batch %d: index %q of model and implementation differ", bi, cfg.specs[si].Name), "")
				return false
			}
		}
		for pi, us := range st.Probes {
			sort.Strings(us)
			if strings.Join(us, "+") != impl[bi].probes[pi] {
				r.Violation(stream, caseJSON, impl[bi].probes[pi], us, false, fmt.Sprintf("batch %d probe %d: model and implementation lookups differ", bi, pi), "")
				return false
			}
		}
	}
	return true
}

func canonTable(t map[string]Row) string {
	var ks []string
	for k := range t {
		ks = append(ks, k)
	}
	sort.Strings(ks)
	var parts []string
	for _, k := range ks {
		parts = append(parts, k+":"+t[k].Canon())
	}
	return strings.Join(parts, " ")
}

func isHandover(ops []RowOpJ, before map[string]Row, cfg idxConfig) bool {
	// an indexed value present before the batch under one row ends under another
	for _, sp := range cfg.specs {
		owner := map[string]string{}
		for u, row := range before {
			owner[idxValOf(sp, row)] = u
		}
		for _, op := range ops {
			if op.Op == "delete" {
				continue
			}
			if o, ok := owner[idxValOf(sp, op.Row)]; ok && o != op.UUID {
				return true
			}
		}
	}
	return false
}

func runC05(r *Run) {
	r.Rule = "histories of batches on table T under a random index configuration (schema: single/multi-column incl. optional columns; client: plain, optional, map-key, multi); each batch applied row by row in a chosen order through TableCache.ApplyCacheUpdate; non-trivial = history containing a batch in which an indexed value moves from one row to another; distinct by (configuration, history)"
	n := 600
	if r.Tier == "thorough" {
		n = 6000
	}
	for i := 0; i < n; i++ {
		cfg := genIdxConfig(r.Rng)
		table := map[string]Row{}
		var batches [][]RowOpJ
		handover := false
		nb := 2 + r.Rng.Intn(4)
		for b := 0; b < nb; b++ {
			ops, final := genBatch(r.Rng, cfg, table)
			if ops == nil {
				break
			}
			if isHandover(ops, table, cfg) {
				handover = true
			}
			batches = append(batches, ops)
			table = final
		}
		key := ""
		if handover {
			key = fmt.Sprintf("%v|%v", cfg.specs, batches)
		}
		r.Case("history", key)
		r.Count(fmt.Sprintf("schema_indexes:%d", len(cfg.schema)))
		r.Count(fmt.Sprintf("client_indexes:%d", len(cfg.client)))
		r.Count(fmt.Sprintf("batches:%d", len(batches)))
		if i < 3 {
			r.Sample(map[string]interface{}{"specs": cfg.specs, "batches": batches})
		}
		if !c05History(r, cfg, batches, "history") {
			continue
		}
		// all orders of the last batch (<= 5 rows): thorough always, quick for a sample
		if len(batches) > 0 && (r.Tier == "thorough" || i%4 == 0) {
			last := batches[len(batches)-1]
			if len(last) >= 2 && len(last) <= 5 {
				permute(last, func(p []RowOpJ) bool {
					hb := append(append([][]RowOpJ{}, batches[:len(batches)-1]...), append([]RowOpJ{}, p...))
					r.Case("all-orders", key+fmt.Sprint(p))
					return c05History(r, cfg, hb, "all-orders")
				})
			}
		}
	}
}

func permute(xs []RowOpJ, f func([]RowOpJ) bool) {
	var rec func(k int) bool
	rec = func(k int) bool {
		if k == len(xs) {
			return f(xs)
		}
		for i := k; i < len(xs); i++ {
			xs[k], xs[i] = xs[i], xs[k]
			ok := rec(k + 1)
			xs[k], xs[i] = xs[i], xs[k]
			if !ok {
				return false
			}
		}
		return true
	}
	rec(0)
}
