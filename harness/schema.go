package main

// Schema specifications, OVSDB schema JSON, run-time built model types
// (reflect.StructOf with `ovsdb:"col"` tags) and Row <-> model conversion.

import (
	"encoding/json"
	"fmt"
	"reflect"
	"sort"
	"strings"

	"github.com/ovn-org/libovsdb/model"
	"github.com/ovn-org/libovsdb/ovsdb"
)

type ColSpec struct {
	Name        string  `json:"name"`
	Type        ColType `json:"type"`
	RefTable    string  `json:"refTable,omitempty"` // key refTable (uuid keys)
	RefType     string  `json:"refType,omitempty"`  // strong | weak
	ValRefTable string  `json:"valRefTable,omitempty"`
	ValRefType  string  `json:"valRefType,omitempty"`
	Immutable   bool    `json:"immutable,omitempty"`
	IsEnum      bool    `json:"enum,omitempty"`
	EnumVals    []Atom  `json:"enumVals,omitempty"` // allowed key atoms of an enum column
}

type TableSpec struct {
	Name    string     `json:"name"`
	Cols    []ColSpec  `json:"cols"`
	Indexes [][]string `json:"indexes,omitempty"`
	IsRoot  bool       `json:"isRoot"`
}

type SchemaSpec struct {
	Name   string      `json:"name"`
	Tables []TableSpec `json:"tables"`
}

func (t TableSpec) Col(name string) *ColSpec {
	for i := range t.Cols {
		if t.Cols[i].Name == name {
			return &t.Cols[i]
		}
	}
	return nil
}

func (s SchemaSpec) Table(name string) *TableSpec {
	for i := range s.Tables {
		if s.Tables[i].Name == name {
			return &s.Tables[i]
		}
	}
	return nil
}

func baseTypeJSON(t, refTable, refType string) interface{} {
	if t == "uuid" && refTable != "" {
		m := map[string]interface{}{"type": "uuid", "refTable": refTable}
		if refType != "" {
			m["refType"] = refType
		}
		return m
	}
	return t
}

func (c ColSpec) typeJSON() interface{} {
	ct := c.Type
	key := baseTypeJSON(ct.Key, c.RefTable, c.RefType)
	if c.IsEnum {
		vals := []interface{}{}
		for _, a := range c.EnumVals {
			vals = append(vals, nativeOfAtom(a))
		}
		key = map[string]interface{}{"type": ct.Key, "enum": []interface{}{"set", vals}}
	}
	switch ct.Kind {
	case "atom":
		if _, ok := key.(string); ok {
			return key
		}
		return map[string]interface{}{"key": key}
	case "opt":
		return map[string]interface{}{"key": key, "min": 0, "max": 1}
	case "set":
		m := map[string]interface{}{"key": key, "min": ct.Min}
		if ct.Max < 0 {
			m["max"] = "unlimited"
		} else {
			m["max"] = ct.Max
		}
		return m
	case "map":
		m := map[string]interface{}{"key": key, "value": baseTypeJSON(ct.Val, c.ValRefTable, c.ValRefType), "min": ct.Min}
		if ct.Max < 0 {
			m["max"] = "unlimited"
		} else {
			m["max"] = ct.Max
		}
		return m
	}
	panic("bad kind " + ct.Kind)
}

// JSON renders the OVSDB schema document.
func (s SchemaSpec) JSON() []byte {
	tables := map[string]interface{}{}
	for _, t := range s.Tables {
		cols := map[string]interface{}{}
		for _, c := range t.Cols {
			cm := map[string]interface{}{"type": c.typeJSON()}
			if c.Immutable {
				cm["mutable"] = false
			}
			cols[c.Name] = cm
		}
		tm := map[string]interface{}{"columns": cols}
		if len(t.Indexes) > 0 {
			tm["indexes"] = t.Indexes
		}
		if t.IsRoot {
			tm["isRoot"] = true
		}
		tables[t.Name] = tm
	}
	b, err := json.Marshal(map[string]interface{}{"name": s.Name, "version": "1.0.0", "tables": tables})
	if err != nil {
		panic(err)
	}
	return b
}

// DB bundles the parsed schema, the run-time model types and the DatabaseModel.
type DB struct {
	Spec    SchemaSpec
	Schema  ovsdb.DatabaseSchema
	Client  model.ClientDBModel
	Model   model.DatabaseModel
	types   map[string]reflect.Type // table -> struct type
	fieldOf map[string]map[string]string
}

func fieldName(i int) string { return fmt.Sprintf("F%d", i) }

// BuildDB parses the schema and builds a model struct per table at run time.
func BuildDB(spec SchemaSpec, clientIndexes map[string][]model.ClientIndex) (*DB, error) {
	var schema ovsdb.DatabaseSchema
	if err := json.Unmarshal(spec.JSON(), &schema); err != nil {
		return nil, fmt.Errorf("schema: %v", err)
	}
	db := &DB{Spec: spec, Schema: schema, types: map[string]reflect.Type{}, fieldOf: map[string]map[string]string{}}
	models := map[string]model.Model{}
	for _, t := range spec.Tables {
		fields := []reflect.StructField{
			{Name: "UUID", Type: reflect.TypeOf(""), Tag: `ovsdb:"_uuid"`},
		}
		db.fieldOf[t.Name] = map[string]string{"_uuid": "UUID"}
		for i, c := range t.Cols {
			cs := schema.Table(t.Name).Column(c.Name)
			fields = append(fields, reflect.StructField{
				Name: fieldName(i), Type: ovsdb.NativeType(cs),
				Tag: reflect.StructTag(fmt.Sprintf(`ovsdb:"%s"`, c.Name)),
			})
			db.fieldOf[t.Name][c.Name] = fieldName(i)
		}
		// an untagged marker field keeps struct types of different tables distinct
		fields = append(fields, reflect.StructField{Name: "T" + strings.ReplaceAll(t.Name, "_", "") + "Marker", Type: reflect.TypeOf(false)})
		st := reflect.StructOf(fields)
		db.types[t.Name] = st
		models[t.Name] = reflect.New(st).Interface()
	}
	client, err := model.NewClientDBModel(spec.Name, models)
	if err != nil {
		return nil, err
	}
	if clientIndexes != nil {
		client.SetIndexes(clientIndexes)
	}
	db.Client = client
	dbm, errs := model.NewDatabaseModel(schema, client)
	if len(errs) > 0 {
		return nil, fmt.Errorf("database model: %v", errs)
	}
	db.Model = dbm
	return db, nil
}

// Row is a model-level row: column -> value (all columns of the table).
type Row map[string]*Value

func (r Row) Canon() string {
	ks := make([]string, 0, len(r))
	for k := range r {
		ks = append(ks, k)
	}
	sort.Strings(ks)
	parts := make([]string, len(ks))
	for i, k := range ks {
		parts[i] = k + "=" + r[k].Canon()
	}
	return "{" + strings.Join(parts, ";") + "}"
}

func (r Row) Clone() Row {
	out := Row{}
	for k, v := range r {
		out[k] = cloneValue(v)
	}
	return out
}

// MarshalJSON renders a row as a list of [col, value] pairs sorted by column
// (the Lean side reads an association list).
func (r Row) MarshalJSON() ([]byte, error) {
	ks := make([]string, 0, len(r))
	for k := range r {
		ks = append(ks, k)
	}
	sort.Strings(ks)
	out := make([]interface{}, len(ks))
	for i, k := range ks {
		out[i] = []interface{}{k, r[k]}
	}
	return json.Marshal(out)
}

func (r *Row) UnmarshalJSON(b []byte) error {
	if string(b) == "null" {
		*r = nil
		return nil
	}
	var raw [][]json.RawMessage
	if err := json.Unmarshal(b, &raw); err != nil {
		return err
	}
	out := Row{}
	for _, p := range raw {
		if len(p) != 2 {
			return fmt.Errorf("bad row pair")
		}
		var k string
		if err := json.Unmarshal(p[0], &k); err != nil {
			return err
		}
		if _, dup := out[k]; dup {
			continue // first binding wins
		}
		var v Value
		if err := json.Unmarshal(p[1], &v); err != nil {
			return err
		}
		out[k] = &v
	}
	*r = out
	return nil
}

// NewModel builds a model struct for table from a row (missing columns keep
// the Go zero value).
func (db *DB) NewModel(table, uuid string, row Row) model.Model {
	st := db.types[table]
	p := reflect.New(st)
	p.Elem().FieldByName("UUID").SetString(uuid)
	ts := db.Spec.Table(table)
	for col, v := range row {
		c := ts.Col(col)
		if c == nil || v == nil {
			continue
		}
		nv := toNative(c.Type, v)
		p.Elem().FieldByName(db.fieldOf[table][col]).Set(reflect.ValueOf(nv))
	}
	return p.Interface()
}

// RowOf reads a model struct back into a Row (all columns).
func (db *DB) RowOf(table string, m model.Model) (string, Row) {
	if m == nil || reflect.ValueOf(m).IsNil() {
		return "", nil
	}
	e := reflect.ValueOf(m).Elem()
	ts := db.Spec.Table(table)
	row := Row{}
	for _, c := range ts.Cols {
		row[c.Name] = fromNative(c.Type, e.FieldByName(db.fieldOf[table][c.Name]).Interface())
	}
	return e.FieldByName("UUID").String(), row
}

// zeroValue of a column type (Go zero of the native type).
func zeroValue(ct ColType) *Value {
	switch ct.Kind {
	case "atom":
		return VA(zeroAtom(ct.Key))
	case "opt":
		return VO(nil)
	case "set":
		return &Value{K: 'S', S: []Atom{}}
	default:
		return &Value{K: 'M', M: [][2]Atom{}}
	}
}

func zeroAtom(t string) Atom {
	switch t {
	case "integer":
		return AI(0)
	case "real":
		return AR(0)
	case "boolean":
		return AB(false)
	case "string":
		return AS("")
	default:
		return AU("")
	}
}
