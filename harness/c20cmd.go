package main

// C20, the program users run: cmd/modelgen (go generate calls it) on a schema with several tables must write,
// for every table and for the database model, exactly the file the generator's API formats for that table --
// which is what every other C20 stream compiles and checks.

import (
	"bytes"
	"encoding/json"
	"fmt"
	"os"
	"os/exec"
	"path/filepath"
	"strings"

	"github.com/ovn-org/libovsdb/modelgen"
	"github.com/ovn-org/libovsdb/ovsdb"
)

func c20Command(r *Run, rounds int) {
	repo := os.Getenv("VERIF_REPO")
	if repo == "" {
		repo = "/repo"
	}
	dir, err := os.MkdirTemp("", "verif-c20cmd-")
	if err != nil {
		return
	}
	defer os.RemoveAll(dir)
	env := append(os.Environ(), "GOFLAGS=-mod=mod", "GOPROXY=off", "GOSUMDB=off", "GOTOOLCHAIN=local", "CGO_ENABLED=0")
	bin := filepath.Join(dir, "modelgen")
	build := exec.Command("go", "build", "-o", bin, "./cmd/modelgen")
	build.Dir, build.Env = repo, env
	if out, err := build.CombinedOutput(); err != nil {
		r.Case("command", "")
		r.Violation("command", map[string]interface{}{"output": lastLines(string(out), 20)}, "go build ./cmd/modelgen failed", "builds", false, "the generator program does not build", "")
		return
	}
	for h := 1; h <= rounds; h++ {
		// several tables with different columns
		_, sj := c20Schema(r, h)
		for try := 0; try < 20 && len(sj["tables"].(map[string]interface{})) < 2; try++ {
			_, sj = c20Schema(r, h+7*try+1)
		}
		sb, _ := json.Marshal(sj)
		extended := h%2 == 0
		cs := map[string]interface{}{"schema": string(sb), "extended": extended}
		r.Case("command", fmt.Sprintf("%s|%v", sb, extended))
		fail := func(impl, want, why string) { r.Violation("command", cs, impl, want, true, why, "") }
		var schema ovsdb.DatabaseSchema
		if json.Unmarshal(sb, &schema) != nil {
			continue
		}
		if len(c20Collisions(schema)) > 0 {
			continue // (the known finding about colliding identifiers is the other stream's)
		}
		out := filepath.Join(dir, fmt.Sprintf("out%d", h))
		sf := filepath.Join(dir, fmt.Sprintf("schema%d.json", h))
		os.WriteFile(sf, sb, 0o644)
		args := []string{"-p", "gen", "-o", out}
		if extended {
			args = append(args, "-extended")
		}
		cmd := exec.Command(bin, append(args, sf)...)
		cmd.Env = env
		if o, err := cmd.CombinedOutput(); err != nil {
			fail(lastLines(string(o), 10), "files written", "cmd/modelgen fails on a valid schema")
			continue
		}
		gen, err := modelgen.NewGenerator()
		if err != nil {
			continue
		}
		want := map[string][]byte{}
		for name, table := range schema.Tables {
			tt := table
			data := modelgen.GetTableTemplateData("gen", name, &tt)
			data.WithExtendedGen(extended)
			src, err := gen.Format(modelgen.NewTableTemplate(), data)
			if err != nil {
				want = nil
				break
			}
			want[modelgen.FileName(name)] = src
		}
		if want == nil {
			continue
		}
		if src, err := gen.Format(modelgen.NewDBTemplate(), modelgen.GetDBTemplateData("gen", schema)); err == nil {
			want["model.go"] = src
		}
		var bad []string
		for fn, src := range want {
			onDisk, err := os.ReadFile(filepath.Join(out, fn))
			if err != nil || !bytes.Equal(onDisk, src) {
				bad = append(bad, fmt.Sprintf("%s: %d bytes written, %d bytes expected (%v)", fn, len(onDisk), len(src), err))
			}
		}
		if ents, err := os.ReadDir(out); err == nil && len(ents) != len(want) {
			bad = append(bad, fmt.Sprintf("%d files written, %d expected", len(ents), len(want)))
		}
		if len(bad) > 0 {
			fail(strings.Join(bad, "; "), "the files the generator formats for each table", "cmd/modelgen does not write, for every table, the model the generator produces for that table")
		}
	}
}
