package main

// C19: no input can crash the library. Structural corruption of valid wire
// encodings fed to every decoder, and corrupted transactions fed to the
// database; outcome classes (ok / err / panic) compared with the model.

import (
	"bytes"
	"encoding/json"
	"fmt"
	"math"
	"math/rand"
	"net"
	"reflect"
	"sort"
	"strings"
	"time"

	"github.com/ovn-org/libovsdb/ovsdb"
)

func init() { props["C19"] = runC19 }

// wire targets: name -> fresh pointer to decode into
var wireTargets = map[string]func() interface{}{
	"set":          func() interface{} { return &ovsdb.OvsSet{} },
	"map":          func() interface{} { return &ovsdb.OvsMap{} },
	"uuid":         func() interface{} { return &ovsdb.UUID{} },
	"value":        func() interface{} { return &valueHolder{} },
	"row":          func() interface{} { return &ovsdb.Row{} },
	"condition":    func() interface{} { return &ovsdb.Condition{} },
	"mutation":     func() interface{} { return &ovsdb.Mutation{} },
	"operation":    func() interface{} { return &ovsdb.Operation{} },
	"result":       func() interface{} { return &ovsdb.OperationResult{} },
	"updates":      func() interface{} { return &ovsdb.TableUpdates{} },
	"updates2":     func() interface{} { return &ovsdb.TableUpdates2{} },
	"monitorreq":   func() interface{} { return &ovsdb.MonitorRequest{} },
	"select":       func() interface{} { return &ovsdb.MonitorSelect{} },
	"condsince":    func() interface{} { return &ovsdb.MonitorCondSinceReply{} },
	"basetype":     func() interface{} { return &ovsdb.BaseType{} },
	"columntype":   func() interface{} { return &ovsdb.ColumnType{} },
	"columnschema": func() interface{} { return &ovsdb.ColumnSchema{} },
	"schema":       func() interface{} { return &ovsdb.DatabaseSchema{} },
}

// valueHolder: a value decoded by ovsSliceToGoNotation (through a one-column row)
type valueHolder struct{ V interface{} }

func (h *valueHolder) UnmarshalJSON(b []byte) error {
	row := ovsdb.Row{}
	if err := json.Unmarshal(append(append([]byte(`{"c":`), b...), '}'), &row); err != nil {
		return err
	}
	h.V = row["c"]
	return nil
}

// kinds whose decoder is modelled in Lean (Model/Wire.lean)
var modelledWire = map[string]bool{"set": true, "map": true, "uuid": true, "row": true, "condition": true, "mutation": true, "value": true}

// kinds whose decoder and encoder are modelled in Lean (Model/WireEnc.lean)
var recodedWire = map[string]bool{"basetype": true, "columntype": true, "columnschema": true, "select": true, "operation": true,
	"result": true, "updates": true, "updates2": true, "condsince": true, "monitorreq": true, "schema": true}

// goValJ renders a decoded value in the canonical form shared with the model
func goValJ(v interface{}) interface{} {
	switch t := v.(type) {
	case ovsdb.UUID:
		return map[string]interface{}{"uuid": t.GoUUID}
	case ovsdb.OvsSet:
		out := []interface{}{}
		for _, e := range t.GoSet {
			out = append(out, goValJ(e))
		}
		return map[string]interface{}{"set": out}
	case ovsdb.OvsMap:
		var pairs [][2]interface{}
		for k, e := range t.GoMap {
			pairs = append(pairs, [2]interface{}{goValJ(k), goValJ(e)})
		}
		return map[string]interface{}{"map": sortPairs(pairs)}
	}
	return map[string]interface{}{"raw": v}
}

func sortPairs(pairs [][2]interface{}) []interface{} {
	key := func(p [2]interface{}) string { b, _ := json.Marshal(p[0]); return string(b) }
	sort.Slice(pairs, func(i, j int) bool { return key(pairs[i]) < key(pairs[j]) })
	out := []interface{}{}
	for _, p := range pairs {
		out = append(out, []interface{}{p[0], p[1]})
	}
	return out
}

// canonModelVal: the model keeps map pairs as a list in decoding order; a Go
// map keeps the last value of a key and has no order
func canonModelVal(x interface{}) interface{} {
	m, ok := x.(map[string]interface{})
	if !ok {
		return x
	}
	if s, ok := m["set"].([]interface{}); ok {
		out := []interface{}{}
		for _, e := range s {
			out = append(out, canonModelVal(e))
		}
		return map[string]interface{}{"set": out}
	}
	if ps, ok := m["map"].([]interface{}); ok {
		return map[string]interface{}{"map": canonModelPairs(ps)}
	}
	return x
}

func canonModelPairs(ps []interface{}) []interface{} {
	last := map[string][2]interface{}{}
	for _, p := range ps {
		kv := p.([]interface{})
		k := canonModelVal(kv[0])
		b, _ := json.Marshal(k)
		last[string(b)] = [2]interface{}{k, canonModelVal(kv[1])}
	}
	var pairs [][2]interface{}
	for _, p := range last {
		pairs = append(pairs, p)
	}
	return sortPairs(pairs)
}

// c19Correspond compares outcome class and decoded value with the Lean model
func c19Correspond(r *Run, kind string, text []byte, out string, val interface{}, cs map[string]interface{}) {
	var mo struct {
		Class string `json:"class"`
		Val   Exact  `json:"val"`
	}
	if err := r.Mdl.Call(map[string]interface{}{"fn": "decodeWire", "kind": kind, "json": json.RawMessage(text)}, &mo); err != nil {
		r.Violation("decode-model", cs, out, err.Error(), false, "model driver failed", "")
		return
	}
	if mo.Class != out {
		if out == "err" && mo.Class == "ok" && hasIntBeyond64(text) {
			// the model's integers are unbounded, Go's int is 64 bits wide: encoding/json rejects a number
			// that does not fit (a documented difference between model and code; no panic either way)
			r.Count("decode-model:integer-beyond-64-bits")
			return
		}
		r.Violation("decode-model", cs, out, mo.Class, false, "outcome class of decoding a "+kind+" differs between implementation and model", "")
		return
	}
	if out != "ok" {
		return
	}
	var iv, mv interface{}
	switch kind {
	case "value":
		iv, mv = goValJ(val.(valueHolder).V), canonModelVal(mo.Val.V)
	case "uuid":
		iv, mv = val.(ovsdb.UUID).GoUUID, mo.Val.V
	case "set":
		iv = goValJ(val.(ovsdb.OvsSet)).(map[string]interface{})["set"]
		mv = canonModelVal(map[string]interface{}{"set": mo.Val.V}).(map[string]interface{})["set"]
	case "map":
		iv = goValJ(val.(ovsdb.OvsMap)).(map[string]interface{})["map"]
		ps, _ := mo.Val.V.([]interface{})
		mv = canonModelPairs(ps)
	case "row":
		o := map[string]interface{}{}
		for k, e := range val.(ovsdb.Row) {
			o[k] = goValJ(e)
		}
		iv = o
		mm := map[string]interface{}{}
		if m, ok := mo.Val.V.(map[string]interface{}); ok {
			for k, e := range m {
				mm[k] = canonModelVal(e)
			}
		}
		mv = mm
	case "condition":
		c := val.(ovsdb.Condition)
		iv = []interface{}{c.Column, string(c.Function), goValJ(c.Value)}
		t := mo.Val.V.([]interface{})
		mv = []interface{}{t[0], t[1], canonModelVal(t[2])}
	case "mutation":
		c := val.(ovsdb.Mutation)
		iv = []interface{}{c.Column, string(c.Mutator), goValJ(c.Value)}
		t := mo.Val.V.([]interface{})
		mv = []interface{}{t[0], t[1], canonModelVal(t[2])}
	}
	a, _ := json.Marshal(iv)
	b, _ := json.Marshal(mv)
	if string(a) != string(b) {
		r.Violation("decode-model", cs, string(a), string(b), false, "decoded "+kind+" differs between implementation and model", "")
	}
}

// taggedTree: random JSON trees in which arrays often start with a notation tag
func taggedTree(rng *rand.Rand, depth int) interface{} {
	if depth == 0 || rng.Intn(3) == 0 {
		return jatom(rng)
	}
	sub := func() interface{} { return taggedTree(rng, depth-1) }
	list := func() []interface{} {
		out := []interface{}{}
		for i := rng.Intn(4); i > 0; i-- {
			out = append(out, sub())
		}
		return out
	}
	switch rng.Intn(8) {
	case 0, 1:
		return []interface{}{"set", list()}
	case 2, 3:
		ps := []interface{}{}
		for i := rng.Intn(4); i > 0; i-- {
			if rng.Intn(6) == 0 {
				ps = append(ps, sub())
			} else {
				ps = append(ps, []interface{}{sub(), sub()})
			}
		}
		return []interface{}{"map", ps}
	case 4:
		return []interface{}{[]string{"uuid", "named-uuid"}[rng.Intn(2)], []interface{}{"u1", "u2", 3.0, nil}[rng.Intn(4)]}
	case 5:
		return append([]interface{}{[]string{"set", "map", "uuid", "named-uuid"}[rng.Intn(4)]}, list()...)
	case 6:
		return map[string]interface{}{"k": sub()}
	default:
		return list()
	}
}

func marshalPanics(v interface{}) (out string) {
	defer func() {
		if p := recover(); p != nil {
			out = fmt.Sprintf("panic: %v", p)
		}
	}()
	if h, ok := v.(valueHolder); ok {
		v = h.V
	}
	_, _ = json.Marshal(v)
	return ""
}

// decodeOutcome: "ok", "err" or "panic:<msg>"
func decodeOutcome(kind string, text []byte) (out string, val interface{}) {
	defer func() {
		if p := recover(); p != nil {
			out = fmt.Sprintf("panic: %v", p)
		}
	}()
	t := wireTargets[kind]()
	if err := json.Unmarshal(text, t); err != nil {
		return "err", nil
	}
	return "ok", reflect.ValueOf(t).Elem().Interface()
}

// ---- generic JSON trees and their corruption

func jatom(rng *rand.Rand) interface{} {
	switch rng.Intn(7) {
	case 0:
		return float64(rng.Intn(5))
	case 1:
		return []string{"a", "", "uuid", "set", "map", "named-uuid"}[rng.Intn(6)]
	case 2:
		return rng.Intn(2) == 0
	case 3:
		return nil
	case 4:
		return []interface{}{}
	case 5:
		return map[string]interface{}{}
	default:
		return 1.5
	}
}

// corrupt returns a structurally corrupted copy of a JSON tree: one random
// position is dropped, replaced by a value of another type, truncated, wrapped
// or unwrapped.
func corrupt(rng *rand.Rand, j interface{}) interface{} {
	// collect paths
	type path []interface{}
	var paths []path
	var walk func(x interface{}, p path)
	walk = func(x interface{}, p path) {
		paths = append(paths, append(path{}, p...))
		switch t := x.(type) {
		case []interface{}:
			for i, e := range t {
				walk(e, append(p, i))
			}
		case map[string]interface{}:
			ks := make([]string, 0, len(t))
			for k := range t {
				ks = append(ks, k)
			}
			sort.Strings(ks)
			for _, k := range ks {
				walk(t[k], append(p, k))
			}
		}
	}
	walk(j, nil)
	target := paths[rng.Intn(len(paths))]
	mode := rng.Intn(6)
	var rec func(x interface{}, p path) (interface{}, bool) // (new value, drop?)
	rec = func(x interface{}, p path) (interface{}, bool) {
		if len(p) == 0 {
			switch mode {
			case 0:
				return nil, true // drop
			case 1:
				return jatom(rng), false
			case 2:
				if a, ok := x.([]interface{}); ok && len(a) > 0 {
					return a[:rng.Intn(len(a))], false // truncate
				}
				return jatom(rng), false
			case 3:
				return []interface{}{x}, false // wrap
			case 4:
				if a, ok := x.([]interface{}); ok && len(a) > 0 {
					return a[0], false // unwrap
				}
				return []interface{}{}, false
			default:
				if a, ok := x.([]interface{}); ok {
					return append(append([]interface{}{}, a...), jatom(rng)), false // extend
				}
				return float64(1 << 60), false
			}
		}
		switch t := x.(type) {
		case []interface{}:
			i := p[0].(int)
			out := append([]interface{}{}, t...)
			nv, drop := rec(t[i], p[1:])
			if drop {
				return append(out[:i], out[i+1:]...), false
			}
			out[i] = nv
			return out, false
		case map[string]interface{}:
			k := p[0].(string)
			out := map[string]interface{}{}
			for kk, vv := range t {
				out[kk] = vv
			}
			nv, drop := rec(t[k], p[1:])
			if drop {
				delete(out, k)
			} else {
				out[k] = nv
			}
			return out, false
		}
		return x, false
	}
	out, drop := rec(j, target)
	if drop {
		return nil
	}
	return out
}

// ---- valid encodings of every wire type (built from the library's own encoders)

func validWire(r *Run, kind string) []byte {
	switch kind {
	case "basetype", "columntype", "columnschema", "schema":
		return validSchemaWire(r, kind)
	}
	b, err := json.Marshal(validWireValue(r, kind))
	if err != nil {
		panic(fmt.Sprintf("cannot encode %s: %v", kind, err))
	}
	return b
}

// validWireValue: a structurally generated Go value of a wire type
func validWireValue(r *Run, kind string) interface{} {
	rng := r.Rng
	ct := genColType(rng)
	val := func() interface{} { return toOvs(nativeToOvsValue(genValue(rng, ct))) }
	uuidv := ovsdb.UUID{GoUUID: uuidPool[1+rng.Intn(4)]}
	if rng.Intn(3) == 0 {
		uuidv = ovsdb.UUID{GoUUID: "rowA"}
	}
	row := func() ovsdb.Row {
		out := ovsdb.Row{}
		for i := rng.Intn(4); i > 0; i-- {
			c := genColType(rng)
			out[fmt.Sprintf("c%d", i)] = toOvs(nativeToOvsValue(genValue(rng, c)))
		}
		if rng.Intn(2) == 0 {
			out["ref"] = uuidv
		}
		return out
	}
	var v interface{}
	switch kind {
	case "set":
		v = toOvs(nativeToOvsValue(genValue(rng, ColType{Kind: "set", Key: atomicTypes[rng.Intn(5)]})))
	case "map":
		v = toOvs(genValue(rng, ColType{Kind: "map", Key: []string{"string", "uuid", "integer"}[rng.Intn(3)], Val: atomicTypes[rng.Intn(5)]}))
	case "uuid":
		v = uuidv
	case "value":
		v = val()
	case "row":
		v = row()
	case "condition":
		v = ovsdb.NewCondition("c", ovsdb.ConditionFunction(condFns[rng.Intn(len(condFns))]), val())
	case "mutation":
		v = ovsdb.NewMutation("c", ovsdb.Mutator([]string{"+=", "-=", "*=", "/=", "%=", "insert", "delete"}[rng.Intn(7)]), val())
	case "operation":
		op := ovsdb.Operation{Op: []string{"insert", "select", "update", "mutate", "delete", "wait", "commit", "abort", "comment", "assert"}[rng.Intn(10)], Table: "T"}
		if rng.Intn(2) == 0 {
			op.Row = row()
		}
		if rng.Intn(2) == 0 {
			op.Rows = []ovsdb.Row{row()}
		}
		if rng.Intn(2) == 0 {
			op.Columns = []string{"a", "b"}
		}
		if rng.Intn(2) == 0 {
			op.Mutations = []ovsdb.Mutation{*ovsdb.NewMutation("c", "insert", val())}
		}
		if rng.Intn(2) == 0 {
			t := rng.Intn(10)
			op.Timeout = &t
		}
		if rng.Intn(2) == 0 {
			op.Where = []ovsdb.Condition{ovsdb.NewCondition("c", "==", val())}
		}
		if rng.Intn(2) == 0 {
			op.Until = "=="
		}
		if rng.Intn(3) == 0 {
			b := rng.Intn(2) == 0
			op.Durable = &b
		}
		if rng.Intn(3) == 0 {
			s := "note"
			op.Comment = &s
		}
		if rng.Intn(3) == 0 {
			s := "lock"
			op.Lock = &s
		}
		if rng.Intn(2) == 0 {
			op.UUID = uuidPool[2]
		}
		if rng.Intn(2) == 0 {
			op.UUIDName = "rowA"
		}
		v = op
	case "result":
		res := ovsdb.OperationResult{}
		switch rng.Intn(4) {
		case 0:
			res.Count = rng.Intn(5)
		case 1:
			res.Error, res.Details = "constraint violation", "x"
		case 2:
			res.UUID = ovsdb.UUID{GoUUID: uuidPool[3]}
		default:
			res.Rows = []ovsdb.Row{row(), row()}
		}
		v = res
	case "updates":
		r1, r2 := row(), row()
		v = ovsdb.TableUpdates{"T": {uuidPool[1]: &ovsdb.RowUpdate{New: &r1}, uuidPool[2]: &ovsdb.RowUpdate{Old: &r2, New: &r1}, uuidPool[3]: &ovsdb.RowUpdate{Old: &r2}}}
	case "updates2":
		r1, r2 := row(), row()
		e := ovsdb.Row{}
		v = ovsdb.TableUpdates2{"T": {uuidPool[1]: &ovsdb.RowUpdate2{Insert: &r1}, uuidPool[2]: &ovsdb.RowUpdate2{Modify: &r2}, uuidPool[3]: &ovsdb.RowUpdate2{Delete: &e}, uuidPool[4]: &ovsdb.RowUpdate2{Initial: &r1}}}
	case "monitorreq":
		mr := ovsdb.MonitorRequest{}
		if rng.Intn(2) == 0 {
			mr.Columns = []string{"a", "b"}
		}
		if rng.Intn(2) == 0 {
			mr.Where = []ovsdb.Condition{ovsdb.NewCondition("c", "==", val())}
		}
		if rng.Intn(2) == 0 {
			mr.Select = ovsdb.NewMonitorSelect(rng.Intn(2) == 0, rng.Intn(2) == 0, rng.Intn(2) == 0, rng.Intn(2) == 0)
		}
		v = mr
	case "select":
		v = ovsdb.NewMonitorSelect(rng.Intn(2) == 0, rng.Intn(2) == 0, rng.Intn(2) == 0, rng.Intn(2) == 0)
	case "condsince":
		r1 := row()
		v = ovsdb.MonitorCondSinceReply{Found: rng.Intn(2) == 0, LastTransactionID: uuidPool[2], Updates: ovsdb.TableUpdates2{"T": {uuidPool[1]: &ovsdb.RowUpdate2{Initial: &r1}}}}
	}
	return v
}

func validSchemaWire(r *Run, kind string) []byte {
	rng := r.Rng
	base := func() interface{} {
		t := atomicTypes[rng.Intn(5)]
		if rng.Intn(3) == 0 {
			return t
		}
		m := map[string]interface{}{"type": t}
		switch t {
		case "integer":
			if rng.Intn(2) == 0 {
				// small bounds, and bounds a float64 cannot hold exactly (up to the limits of a 64-bit integer)
				los := []int64{0, -5, -2147483648, -9007199254740993, -1152921504606846977, -9223372036854775808}
				his := []int64{10, 4294967295, 9007199254740993, 1152921504606846979, 9223372036854775807}
				m["minInteger"], m["maxInteger"] = los[rng.Intn(len(los))], his[rng.Intn(len(his))]
			}
			if rng.Intn(3) == 0 {
				m["enum"] = []interface{}{"set", []interface{}{1, 2, 3}}
			}
		case "real":
			if rng.Intn(2) == 0 {
				m["minReal"], m["maxReal"] = 0.5, 2.5
			}
		case "string":
			if rng.Intn(2) == 0 {
				m["minLength"], m["maxLength"] = 1, 5
			}
			if rng.Intn(3) == 0 {
				m["enum"] = []interface{}{"set", []interface{}{"a", "b"}}
			}
			if rng.Intn(4) == 0 {
				m["enum"] = "only"
			}
		case "uuid":
			switch rng.Intn(6) {
			case 0: // an enum of one uuid, in both of its spellings, and of two
				m["enum"] = []interface{}{"uuid", uuidPool[1]}
			case 1:
				m["enum"] = []interface{}{"set", []interface{}{[]interface{}{"uuid", uuidPool[2]}}}
			case 2:
				m["enum"] = []interface{}{"set", []interface{}{[]interface{}{"uuid", uuidPool[1]}, []interface{}{"uuid", uuidPool[2]}}}
			}
			if rng.Intn(2) == 0 {
				m["refTable"] = "T"
				if rng.Intn(2) == 0 {
					m["refType"] = []string{"strong", "weak"}[rng.Intn(2)]
				}
			}
		}
		return m
	}
	ctype := func() interface{} {
		if rng.Intn(3) == 0 {
			return atomicTypes[rng.Intn(5)]
		}
		m := map[string]interface{}{"key": base()}
		if rng.Intn(3) == 0 {
			m["value"] = base()
		}
		switch rng.Intn(8) {
		case 0:
			m["min"], m["max"] = 0, 1
		case 1:
			m["min"], m["max"] = 0, "unlimited"
		case 2:
			m["min"], m["max"] = 1, 5
		case 3:
			m["min"] = 0 // max defaults to 1: an optional value
		case 4:
			m["min"] = 1
		case 5:
			m["max"] = []interface{}{3, "unlimited", 1}[rng.Intn(3)] // min defaults to 1
		case 6:
			m["min"], m["max"] = 1, 1
		}
		return m
	}
	col := func() interface{} {
		m := map[string]interface{}{"type": ctype()}
		if rng.Intn(3) == 0 {
			m["ephemeral"] = rng.Intn(2) == 0
		}
		if rng.Intn(3) == 0 {
			m["mutable"] = rng.Intn(2) == 0
		}
		return m
	}
	var v interface{}
	switch kind {
	case "basetype":
		v = base()
	case "columntype":
		v = ctype()
	case "columnschema":
		v = col()
	default:
		tables := map[string]interface{}{}
		for _, n := range []string{"T", "U"}[:1+rng.Intn(2)] {
			cols := map[string]interface{}{}
			for i := 1 + rng.Intn(3); i > 0; i-- {
				cols[fmt.Sprintf("c%d", i)] = col()
			}
			t := map[string]interface{}{"columns": cols}
			if rng.Intn(2) == 0 {
				t["indexes"] = []interface{}{[]interface{}{"c1"}}
			}
			if rng.Intn(2) == 0 {
				t["isRoot"] = true
			}
			tables[n] = t
		}
		v = map[string]interface{}{"name": "db", "version": "1.0.0", "tables": tables}
	}
	b, _ := json.Marshal(v)
	return b
}

func runC19(r *Run) {
	r.Rule = "valid encodings of every wire type (set, map, uuid, row, condition, mutation, operation, result, table updates (both), monitor request/select/reply, base type, column type, column schema, database schema) structurally corrupted (drop / retype / truncate / wrap / unwrap / extend at a random position) and fed to json.Unmarshal into the exported type; corrupted transactions fed to the database; non-trivial = corrupted text that is still valid JSON and differs from the valid encoding; distinct by (type, text)"
	n := 6000
	if r.Tier == "thorough" {
		n = 120000
	}
	kinds := make([]string, 0, len(wireTargets))
	for k := range wireTargets {
		kinds = append(kinds, k)
	}
	sort.Strings(kinds)
	for i := 0; i < n; i++ {
		kind := kinds[i%len(kinds)]
		valid := validWire(r, kind)
		var tree interface{}
		if err := json.Unmarshal(valid, &tree); err != nil {
			panic(err)
		}
		text := valid
		if i%8 != 0 {
			c := tree
			for k := 1 + r.Rng.Intn(2); k > 0; k-- {
				c = corrupt(r.Rng, c)
			}
			text, _ = json.Marshal(c)
		}
		key := ""
		if string(text) != string(valid) {
			key = kind + string(text)
		}
		r.Case("decode:"+kind, key)
		if i < 5 {
			r.Sample(map[string]string{"type": kind, "text": string(text)})
		}
		out, val := decodeOutcome(kind, text)
		cs := map[string]interface{}{"type": kind, "text": string(text)}
		if strings.HasPrefix(out, "panic") {
			r.Count("panic:" + kind)
			r.Violation("decode:"+kind, cs, out, "error or value", true, "decoding a "+kind+" panicked", "")
			continue
		}
		r.Count(out)
		if out == "ok" {
			// whatever was accepted can be encoded again without a crash
			if p := marshalPanics(val); p != "" {
				r.Violation("decode:"+kind, cs, p, "encodes or returns an error", true, "re-encoding an accepted "+kind+" panicked", "")
				continue
			}
		}
		if modelledWire[kind] {
			c19Correspond(r, kind, text, out, val, cs)
		}
		if recodedWire[kind] {
			recodeCorrespond(r, "decode-model", kind, text)
		}
	}
	// tagged random trees (nested sets / maps / uuids, well-formed or not) for the modelled decoders
	nt := n / 3
	mk := []string{"condition", "map", "mutation", "row", "set", "uuid", "value"}
	for i := 0; i < nt; i++ {
		kind := mk[i%len(mk)]
		tree := taggedTree(r.Rng, 3)
		switch kind {
		case "condition":
			tree = []interface{}{"c", condFns[r.Rng.Intn(len(condFns))], tree}
		case "mutation":
			tree = []interface{}{"c", []string{"+=", "-=", "*=", "/=", "%=", "insert", "delete"}[r.Rng.Intn(7)], tree}
		case "row":
			tree = map[string]interface{}{"a": tree, "b": taggedTree(r.Rng, 2)}
		}
		if r.Rng.Intn(4) == 0 {
			tree = corrupt(r.Rng, tree)
		}
		text, _ := json.Marshal(tree)
		r.Case("decode-tree:"+kind, kind+string(text))
		out, val := decodeOutcome(kind, text)
		cs := map[string]interface{}{"type": kind, "text": string(text)}
		if strings.HasPrefix(out, "panic") {
			r.Violation("decode-tree:"+kind, cs, out, "error or value", true, "decoding a "+kind+" panicked", "")
			continue
		}
		r.Count("tree:" + out)
		c19Correspond(r, kind, text, out, val, cs)
	}
	r.Enter("transact")
	c19Transact(r)
	r.Enter("raw-rpc")
	c19Raw(r)
	r.Enter("raw-monitor")
	c19RawMonitor(r)
	r.Enter("notify")
	c19Notify(r)
}

// c19Raw: raw JSON-RPC over the server's socket: a transact request whose parameters are structurally
// corrupted, followed by an echo on the same connection. The server must answer the echo: a panic in the
// connection's goroutine would take the whole process down (the case in flight is recorded for that event).
func c19Raw(r *Run) {
	n := 200
	if r.Tier == "thorough" {
		n = 1500
	}
	ts := genTxnSchema(r.Rng, true)
	rig, err := newRig(ts)
	if err != nil {
		return
	}
	defer rig.Close()
	sh := newShadow()
	for k := 0; k < 3; k++ {
		txn := genTxn(r.Rng, ts, sh, 3)
		clampWaits(&txn)
		rig.im.transact(txn.Ops, nil)
		sh.load(rig.im.dump())
	}
	for i := 0; i < n; i++ {
		txn := genTxn(r.Rng, ts, sh, 1+r.Rng.Intn(4))
		clampWaits(&txn)
		var oo []interface{}
		for _, o := range txn.Ops {
			b, _ := json.Marshal(o.toOvs())
			var t interface{}
			_ = json.Unmarshal(b, &t)
			oo = append(oo, t)
		}
		// JSON-RPC requires params to be an array: corrupt its elements (the database name, the operations)
		list := append([]interface{}{"db"}, oo...)
		for k := 1 + r.Rng.Intn(2); k > 0; k-- {
			i := r.Rng.Intn(len(list))
			list[i] = corrupt(r.Rng, list[i])
		}
		if r.Rng.Intn(6) == 0 {
			list = list[:r.Rng.Intn(len(list)+1)]
		}
		var params interface{} = list
		// waits must not sleep: force a zero timeout wherever an operation object says "wait"
		forceZeroTimeout(params)
		req, _ := json.Marshal(map[string]interface{}{"method": "transact", "params": params, "id": 1})
		cs := map[string]interface{}{"model": ts.modelJSON(), "request": string(req)}
		r.Case("raw-rpc", string(req))
		r.InFlight("raw-rpc", cs, "the server crashed on a raw transact request")
		conn, err := net.DialTimeout("unix", rig.sock, 2*time.Second)
		if err != nil {
			r.Landed()
			r.Violation("raw-rpc", cs, err.Error(), "connection", true, "the server no longer accepts connections", "")
			return
		}
		_ = conn.SetDeadline(time.Now().Add(5 * time.Second))
		_, _ = conn.Write(req)
		_, _ = conn.Write([]byte(`{"method":"echo","params":["still-there"],"id":2}`))
		dec := json.NewDecoder(conn)
		gotEcho := false
		for k := 0; k < 4 && !gotEcho; k++ {
			var resp map[string]interface{}
			if err := dec.Decode(&resp); err != nil {
				break
			}
			if id, ok := resp["id"].(float64); ok && id == 2 && resp["error"] == nil {
				gotEcho = true
			}
		}
		conn.Close()
		r.Landed()
		if !gotEcho {
			r.Violation("raw-rpc", cs, "no echo reply within 5s", "echo reply", true, "after an ill-formed transact request the server does not answer an echo on the same connection", "")
			return
		}
	}
}

// c19RawMonitor: the same for the three monitor methods: a valid monitor request (columns, select, where)
// is structurally corrupted, sent raw, followed by a valid insert (so that the registered monitor, if any,
// has an update to filter) and an echo, which must be answered.
func c19RawMonitor(r *Run) {
	n := 150
	if r.Tier == "thorough" {
		n = 900
	}
	ts := genTxnSchema(r.Rng, true)
	rig, err := newRig(ts)
	if err != nil {
		return
	}
	defer rig.Close()
	sh := newShadow()
	for k := 0; k < 3; k++ {
		txn := genTxn(r.Rng, ts, sh, 3)
		clampWaits(&txn)
		rig.im.transact(txn.Ops, nil)
		sh.load(rig.im.dump())
	}
	for i := 0; i < n; i++ {
		method := []string{"monitor", "monitor_cond", "monitor_cond_since"}[i%3]
		reqs := map[string]interface{}{}
		for _, t := range ts.Spec.Tables {
			if r.Rng.Intn(3) == 0 {
				continue
			}
			mr := map[string]interface{}{}
			if r.Rng.Intn(2) == 0 {
				var cols []interface{}
				for _, c := range t.Cols {
					if r.Rng.Intn(2) == 0 {
						cols = append(cols, c.Name)
					}
				}
				mr["columns"] = cols
			}
			if r.Rng.Intn(2) == 0 {
				mr["select"] = map[string]interface{}{"initial": r.Rng.Intn(2) == 0, "insert": r.Rng.Intn(2) == 0, "delete": r.Rng.Intn(2) == 0, "modify": r.Rng.Intn(2) == 0}
			}
			if method != "monitor" && r.Rng.Intn(2) == 0 {
				mr["where"] = []interface{}{[]interface{}{"name", "==", "a"}}
			}
			reqs[t.Name] = mr
		}
		var creqs interface{} = reqs
		switch r.Rng.Intn(4) {
		case 0: // a table's request is null / of another type
			for t := range reqs {
				reqs[t] = corrupt(r.Rng, nil)
				if r.Rng.Intn(2) == 0 {
					reqs[t] = nil
				}
				break
			}
		case 1:
			creqs = corrupt(r.Rng, creqs)
		default:
			for t := range reqs {
				reqs[t] = corrupt(r.Rng, reqs[t])
				if r.Rng.Intn(2) == 0 {
					break
				}
			}
		}
		list := []interface{}{"db", fmt.Sprintf("m%d", i), creqs}
		if method == "monitor_cond_since" {
			list = append(list, "00000000-0000-0000-0000-000000000000")
		}
		if r.Rng.Intn(5) == 0 {
			k := r.Rng.Intn(len(list))
			list[k] = corrupt(r.Rng, list[k])
		}
		if r.Rng.Intn(8) == 0 {
			list = list[:r.Rng.Intn(len(list)+1)]
		}
		if i%5 == 4 {
			// the remaining methods of the server, with arbitrary parameter lists
			method = []string{"list_dbs", "get_schema", "cancel", "monitor_cancel", "lock", "steal", "unlock", "echo", "no_such_method"}[r.Rng.Intn(9)]
			list = []interface{}{}
			for k := r.Rng.Intn(4); k > 0; k-- {
				list = append(list, []interface{}{"db", nil, 1, 1.5, true, "nosuchdb", []interface{}{}, map[string]interface{}{"a": 1}, fmt.Sprintf("m%d", i-1)}[r.Rng.Intn(9)])
			}
		}
		req, _ := json.Marshal(map[string]interface{}{"method": method, "params": list, "id": 1})
		ins := genInsertOnly(r, ts, sh)
		cs := map[string]interface{}{"model": ts.modelJSON(), "request": string(req), "then": string(ins)}
		r.Case("raw-monitor", string(req))
		r.Count("raw:" + method)
		r.InFlight("raw-monitor", cs, "the server crashed on a raw "+method+" request")
		conn, err := net.DialTimeout("unix", rig.sock, 2*time.Second)
		if err != nil {
			r.Landed()
			r.Violation("raw-monitor", cs, err.Error(), "connection", true, "the server no longer accepts connections", "")
			return
		}
		_ = conn.SetDeadline(time.Now().Add(5 * time.Second))
		_, _ = conn.Write(req)
		_, _ = conn.Write(ins)
		_, _ = conn.Write([]byte(`{"method":"echo","params":["still-there"],"id":3}`))
		dec := json.NewDecoder(conn)
		gotEcho := false
		for k := 0; k < 8 && !gotEcho; k++ {
			var resp map[string]interface{}
			if err := dec.Decode(&resp); err != nil {
				break
			}
			if id, ok := resp["id"].(float64); ok && id == 3 && resp["error"] == nil {
				gotEcho = true
			}
		}
		conn.Close()
		r.Landed()
		if !gotEcho {
			r.Violation("raw-monitor", cs, "no echo reply within 5s", "echo reply", true, "after an ill-formed "+method+" request and a transaction the server does not answer an echo on the same connection", "")
			return
		}
	}
}

// genInsertOnly: a raw transact request inserting one fresh row into the first table
func genInsertOnly(r *Run, ts TxnSchema, sh *shadow) []byte {
	t := ts.Spec.Tables[0]
	op := map[string]interface{}{"op": "insert", "table": t.Name, "row": map[string]interface{}{"name": fmt.Sprintf("raw%d", r.Rng.Intn(1<<30))}}
	b, _ := json.Marshal(map[string]interface{}{"method": "transact", "params": []interface{}{"db", op}, "id": 2})
	return b
}

func forceZeroTimeout(x interface{}) {
	switch t := x.(type) {
	case []interface{}:
		for _, e := range t {
			forceZeroTimeout(e)
		}
	case map[string]interface{}:
		if t["op"] == "wait" || t["timeout"] != nil {
			t["timeout"] = 0
		}
		for _, e := range t {
			forceZeroTimeout(e)
		}
	}
}

// c19Scripted: degenerate requests written out by hand (members an operation
// needs are missing, unknown names, empty lists).
func c19Scripted(r *Run) {
	ts := genTxnSchema(r.Rng, false)
	t0 := ts.Spec.Tables[0].Name
	texts := []string{
		`[]`,
		`[{"op":"commit","table":"` + t0 + `"}]`,
		`[{"op":"comment","table":"` + t0 + `"}]`,
		`[{"op":"assert","table":"` + t0 + `"}]`,
		`[{"op":"abort","table":"` + t0 + `"}]`,
		`[{"op":"commit","table":"` + t0 + `","durable":true}]`,
		`[{"op":"frobnicate","table":"` + t0 + `"}]`,
		`[{"op":"insert","table":"nosuchtable","row":{}}]`,
		`[{"op":"insert","table":"` + t0 + `","row":{"nosuchcolumn":1}}]`,
		`[{"op":"select","table":"` + t0 + `","where":[["nosuchcolumn","==",1]]}]`,
		`[{"op":"select","table":"` + t0 + `","where":[["name","==",1]]}]`,
		`[{"op":"update","table":"` + t0 + `","where":[],"row":{"name":5}}]`,
		`[{"op":"mutate","table":"` + t0 + `","where":[],"mutations":[["nosuchcolumn","+=",1]]}]`,
		`[{"op":"mutate","table":"` + t0 + `","where":[],"mutations":[["n","/=",0]]}]`,
		`[{"op":"mutate","table":"` + t0 + `","where":[],"mutations":[["n","%=",0]]}]`,
		`[{"op":"mutate","table":"` + t0 + `","where":[],"mutations":[["name","+=",1]]}]`,
		`[{"op":"wait","table":"` + t0 + `","timeout":0}]`,
		// waits without the optional timeout member whose condition holds at once (the stored row is not among
		// no rows; a name nobody has selects nothing)
		`[{"op":"wait","table":"` + t0 + `","where":[],"columns":["name"],"until":"!=","rows":[]}]`,
		`[{"op":"wait","table":"` + t0 + `","where":[["name","==","nobody"]],"columns":["name"],"until":"==","rows":[]}]`,
		`[{"op":"wait","table":"` + t0 + `","where":[],"columns":["name"],"until":"==","rows":[{"name":"a"}]}]`,
		`[{"op":"wait","table":"` + t0 + `","timeout":0,"until":"==","columns":["nosuchcolumn"],"rows":[{"nosuchcolumn":1}]}]`,
		`[{"op":"insert","table":"` + t0 + `","row":{"name":null}}]`,
		`[{"op":"insert","table":"` + t0 + `","row":{"n":null}}]`,
		`[{"op":"select","table":"` + t0 + `","where":[["n","==",null]]}]`,
		`[{"op":"delete","table":"` + t0 + `","where":[["n","<",null]]}]`,
		`[{"op":"update","table":"` + t0 + `","where":[],"row":{"n":null}}]`,
		`[{"op":"mutate","table":"` + t0 + `","where":[],"mutations":[["n","+=",null]]}]`,
		`[{"op":"mutate","table":"` + t0 + `","where":[],"mutations":[["n","*=",0]]}]`,
		`[{"op":"insert","table":"` + t0 + `","row":{"is":["set",[1,null]]}}]`,
		`[{"op":"insert","table":"` + t0 + `","row":{"im":["map",[[1,null]]]}}]`,
		`[{"op":"insert","table":"` + t0 + `","row":{"im":["map",[[null,1]]]}}]`,
		`[{"op":"insert","table":"` + t0 + `","row":{"bs":["set",[null]]}}]`,
		`[{"op":"insert","table":"` + t0 + `","row":{"tag":["set",[null]]}}]`,
		`[{"op":"insert","table":"` + t0 + `","uuid":"not-a-uuid","row":{}}]`,
		`[{"op":"delete","table":"` + t0 + `","where":[["_uuid","==","notauuidvalue"]]}]`,
		`[{"op":"delete","table":"` + t0 + `","where":[["_uuid","includes",["set",[]]]]}]`,
	}
	for _, text := range texts {
		r.Case("transact-scripted", text)
		cs := map[string]interface{}{"model": ts.modelJSON(), "ops_json": text}
		im := newImplDB(ts)
		im.transact([]OperationJ{{Op: "insert", Table: t0, UUID: mkUUID(1), Row: Row{"name": VA(AS("a")), "n": VA(AI(4))}}}, nil)
		var ops []ovsdb.Operation
		if err := json.Unmarshal([]byte(text), &ops); err != nil {
			continue
		}
		func() {
			defer func() {
				if p := recover(); p != nil {
					r.Violation("transact-scripted", cs, fmt.Sprintf("panic: %v", p), "results or error results", true, "the database panicked on an ill-formed transaction", "")
				}
			}()
			tx := im.d.NewTransaction("db")
			tx.Transact(ops...)
		}()
		out := im.transact([]OperationJ{{Op: "select", Table: t0}}, nil)
		if out.Panic != "" || hasErr(out.Results) {
			r.Violation("transact-scripted", cs, out.Panic, "", true, "the database does not serve a simple select after an ill-formed transaction", "")
		}
	}
	// a database that does not exist
	func() {
		defer func() {
			if p := recover(); p != nil {
				r.Violation("transact-scripted", map[string]interface{}{"database": "nosuchdb", "ops_json": "[]"}, fmt.Sprintf("panic: %v", p), "", true,
					"an empty transaction for a database that does not exist panicked", "")
			}
		}()
		im := newImplDB(ts)
		r.Case("transact-scripted", "nosuchdb")
		im.d.NewTransaction("nosuchdb").Transact()
		im.d.NewTransaction("nosuchdb").Transact(ovsdb.Operation{Op: "select", Table: t0})
	}()
}

// c19EnumScripted: operations on enum columns (plain, optional and multi-valued, of strings and of integers)
// that a database may well refuse but has to answer: every mutator with operands of the enum's atomic type
// and of other types, values outside the enum, conditions of every function
func c19EnumScripted(r *Run) {
	str := func(kind string, min, max int) ColType { return ColType{Kind: kind, Key: "string", Min: min, Max: max} }
	t := TableSpec{Name: "E", IsRoot: true, Cols: []ColSpec{
		{Name: "name", Type: str("atom", 1, 1)},
		{Name: "n", Type: ColType{Kind: "atom", Key: "integer", Min: 1, Max: 1}},
		{Name: "act", Type: str("atom", 1, 1), IsEnum: true, EnumVals: []Atom{AS("allow"), AS("drop"), AS("reject")}},
		{Name: "oact", Type: str("opt", 0, 1), IsEnum: true, EnumVals: []Atom{AS("allow"), AS("drop")}},
		{Name: "acts", Type: str("set", 0, -1), IsEnum: true, EnumVals: []Atom{AS("allow"), AS("drop"), AS("reject")}},
		{Name: "lvl", Type: ColType{Kind: "atom", Key: "integer", Min: 1, Max: 1}, IsEnum: true, EnumVals: []Atom{AI(1), AI(2), AI(3)}},
	}}
	ts := TxnSchema{Spec: SchemaSpec{Name: "db", Tables: []TableSpec{t}}, Specs: map[string][]ISpec{"E": {}}}
	var texts []string
	// (the built-in columns _uuid and _version are columns too: they have a name and no type object of their own)
	for _, col := range []string{"act", "oact", "acts", "lvl", "_uuid", "_version"} {
		for _, mut := range []string{"+=", "-=", "*=", "/=", "%=", "insert", "delete"} {
			for _, val := range []string{`"drop"`, `1`, `0`, `["set",["allow","drop"]]`, `["set",[]]`, `"nosuch"`, `1.5`, `true`,
				`["uuid","00000001-0000-4000-8000-000000000001"]`, `["set",[["uuid","00000001-0000-4000-8000-000000000001"]]]`, `["map",[]]`} {
				texts = append(texts, `[{"op":"mutate","table":"E","where":[],"mutations":[["`+col+`","`+mut+`",`+val+`]]}]`)
			}
		}
		for _, fn := range []string{"==", "!=", "<", "<=", ">", ">=", "includes", "excludes"} {
			for _, val := range []string{`"drop"`, `2`, `["set",["allow"]]`, `"nosuch"`, `["uuid","00000001-0000-4000-8000-000000000001"]`, `["set",[]]`} {
				texts = append(texts, `[{"op":"select","table":"E","where":[["`+col+`","`+fn+`",`+val+`]]}]`)
			}
		}
		for _, val := range []string{`"drop"`, `"nosuch"`, `7`, `["set",["allow","allow"]]`, `["set",[]]`, `["uuid","00000002-0000-4000-8000-000000000002"]`} {
			texts = append(texts, `[{"op":"update","table":"E","where":[],"row":{"`+col+`":`+val+`}}]`,
				`[{"op":"insert","table":"E","row":{"name":"x","`+col+`":`+val+`}}]`)
		}
	}
	for _, text := range texts {
		r.Case("transact-scripted", "enum:"+text)
		cs := map[string]interface{}{"model": ts.modelJSON(), "ops_json": text}
		im := newImplDB(ts)
		im.transact([]OperationJ{{Op: "insert", Table: "E", UUID: mkUUID(1), Row: Row{"name": VA(AS("a")), "n": VA(AI(4)),
			"act": VA(AS("allow")), "oact": VS(AS("drop")), "acts": VS(AS("allow"), AS("reject")), "lvl": VA(AI(2))}}}, nil)
		var ops []ovsdb.Operation
		if err := json.Unmarshal([]byte(text), &ops); err != nil {
			continue
		}
		func() {
			defer func() {
				if p := recover(); p != nil {
					r.Violation("transact-scripted", cs, fmt.Sprintf("panic: %v", p), "results or error results", true, "the database panicked on an operation on an enum or built-in column", "")
				}
			}()
			tx := im.d.NewTransaction("db")
			tx.Transact(ops...)
		}()
		out := im.transact([]OperationJ{{Op: "select", Table: "E"}}, nil)
		if out.Panic != "" || hasErr(out.Results) || len(out.Results) != 1 || len(out.Results[0].Rows) == 0 {
			r.Violation("transact-scripted", cs, out.Panic, "", true, "the database does not serve a simple select after an operation on an enum or built-in column", "")
		}
	}
}

// c19Transact: corrupted operation lists against the database.
// c19CondSweep: every column of a populated table x every condition function and mutator x degenerate
// arguments of the column's own type (empty set / map, one element, the value a row holds): well-typed
// but unusual operations, each of which the database must answer.
func c19CondSweep(r *Run) {
	rounds := 2
	if r.Tier == "thorough" {
		rounds = 20
	}
	for h := 0; h < rounds; h++ {
		ts := genTxnSchema(r.Rng, true)
		im := newImplDB(ts)
		sh := newShadow()
		for k := 0; k < 4; k++ {
			txn := genTxn(r.Rng, ts, sh, 4)
			clampWaits(&txn)
			im.transact(txn.Ops, nil)
			sh.load(im.dump())
		}
		g := &txnGen{rng: r.Rng, ts: ts, sh: sh, named: map[string]string{}, inserted: map[string][]string{}}
		for _, t := range ts.Spec.Tables {
			for _, c := range t.Cols {
				var args []*Value
				args = append(args, zeroValue(c.Type), g.genColValue(c))
				for _, u := range sh.uuids(t.Name) {
					if v := sh.rows[t.Name][u][c.Name]; v != nil {
						args = append(args, v)
						break
					}
				}
				for _, a := range args {
					for _, fn := range condFns {
						op := OperationJ{Op: []string{"select", "delete", "update"}[r.Rng.Intn(3)], Table: t.Name, Row: Row{},
							Where: []WCondJ{{Col: c.Name, Fn: fn, Val: nativeToOvsValue(a)}}}
						c19Answer(r, ts, im, []OperationJ{op}, "cond-sweep")
					}
					for _, mu := range []string{"+=", "-=", "*=", "/=", "%=", "insert", "delete"} {
						op := OperationJ{Op: "mutate", Table: t.Name, Mutations: []MutationJ{{Col: c.Name, Mutator: mu, Val: nativeToOvsValue(a)}}}
						c19Answer(r, ts, im, []OperationJ{op}, "cond-sweep")
					}
				}
			}
		}
	}
}

// c19Answer: the database must answer the operations (results or error results, no panic)
func c19Answer(r *Run, ts TxnSchema, im *ImplDB, ops []OperationJ, stream string) {
	text, _ := json.Marshal(toOvsOps(ops))
	r.Case(stream, string(text))
	cs := map[string]interface{}{"model": ts.modelJSON(), "ops_json": string(text)}
	func() {
		defer func() {
			if p := recover(); p != nil {
				r.Violation(stream, cs, fmt.Sprintf("panic: %v", p), "results or error results", true, "the database panicked on a well-formed but degenerate operation", "")
			}
		}()
		tx := im.d.NewTransaction("db")
		res, _ := tx.Transact(toOvsOps(ops)...)
		if len(res) == 0 {
			r.Violation(stream, cs, "no results", "results or error results", true, "the database did not answer", "")
		}
	}()
}

func c19Transact(r *Run) {
	c19Scripted(r)
	c19EnumScripted(r)
	c19CondSweep(r)
	n := 300
	if r.Tier == "thorough" {
		n = 5000
	}
	for h := 0; h < n; h++ {
		ts := genTxnSchema(r.Rng, true)
		im := newImplDB(ts)
		sh := newShadow()
		// a little state
		for k := 0; k < 2; k++ {
			txn := genTxn(r.Rng, ts, sh, 3)
			im.transact(txn.Ops, nil)
			sh.load(im.dump())
		}
		txn := genTxn(r.Rng, ts, sh, 1+r.Rng.Intn(4))
		var oo []ovsdb.Operation
		for _, o := range txn.Ops {
			oo = append(oo, o.toOvs())
		}
		b, _ := json.Marshal(oo)
		var tree interface{}
		_ = json.Unmarshal(b, &tree)
		c := corrupt(r.Rng, tree)
		if r.Rng.Intn(2) == 0 {
			c = corrupt(r.Rng, c)
		}
		text, _ := json.Marshal(c)
		r.Case("transact", string(text))
		cs := map[string]interface{}{"model": ts.modelJSON(), "ops_json": string(text)}
		var ops []ovsdb.Operation
		decodeOK := func() (ok bool) {
			defer func() {
				if p := recover(); p != nil {
					r.Violation("transact", cs, fmt.Sprintf("panic: %v", p), "", true, "decoding a transact request panicked", "")
					ok = false
				}
			}()
			return json.Unmarshal(text, &ops) == nil
		}()
		if !decodeOK {
			r.Count("transact:undecodable")
			continue
		}
		for i := range ops {
			// a wait that is not satisfied legitimately does not return before its timeout
			// (never, without one: RFC 7047): keep the run finite
			if ops[i].Op == "wait" {
				zero := 0
				ops[i].Timeout = &zero
			}
		}
		before := dumpCanon(im.dump())
		func() {
			defer func() {
				if p := recover(); p != nil {
					r.Violation("transact", cs, fmt.Sprintf("panic: %v", p), "", true, "the database panicked on an ill-formed transaction", "")
				}
			}()
			tx := im.d.NewTransaction("db")
			res, _ := tx.Transact(ops...)
			failed := false
			for _, x := range res {
				if x != nil && x.Error != "" {
					failed = true
				}
			}
			if failed {
				r.Count("transact:error")
			} else {
				r.Count("transact:ok")
			}
			_ = before
		}()
		// still serving: a well-formed transaction afterwards works
		out := im.transact([]OperationJ{{Op: "select", Table: ts.Spec.Tables[0].Name}}, nil)
		if out.Panic != "" || hasErr(out.Results) {
			r.Violation("transact", cs, out.Panic, "", true, "the database does not serve a simple select after an ill-formed transaction", "")
		}
	}
}

// hasIntBeyond64: does the JSON text hold an integral number outside the range of a 64-bit integer?
func hasIntBeyond64(text []byte) bool {
	dec := json.NewDecoder(bytes.NewReader(text))
	dec.UseNumber()
	var v interface{}
	if dec.Decode(&v) != nil {
		return false
	}
	found := false
	var walk func(x interface{})
	walk = func(x interface{}) {
		switch t := x.(type) {
		case json.Number:
			if f, err := t.Float64(); err == nil && f == math.Trunc(f) && (f >= 9.2233720368547e18 || f <= -9.2233720368547e18) {
				found = true
			}
		case []interface{}:
			for _, e := range t {
				walk(e)
			}
		case map[string]interface{}:
			for _, e := range t {
				walk(e)
			}
		}
	}
	walk(v)
	return found
}
