//go:build verif

package main

import (
	"encoding/json"
	"fmt"
	"sort"
	"sync"
	"time"

	"github.com/cenkalti/backoff/v4"
	"github.com/ovn-org/libovsdb/client"
)

// C16, fail-over between servers with different memories. monitor_cond_since is answered by a server out
// of its transaction history: one that has lost it (restart, compaction) answers found=false with the
// complete contents, one that still has the id the client asks with answers found=true with what changed
// since. A cluster member that was restarted and one that was not give a client both kinds of answers in
// a row. The proxy plays both: it numbers the notifications (update3), remembers which rows existed at
// every id it handed out, and rewrites the in-memory server's reply (always found=false, complete
// contents) into the answer of a server that remembers: [true, id, rows inserted and deleted since the id
// the client asked with]. Only inserts and deletes are committed in this stream, so that the difference is
// computable from the complete contents. Whatever sequence of answers the client gets, its cache must
// converge to the database.
type failoverServer struct {
	mu        sync.Mutex
	n         int
	current   string                                // id of the latest state handed to the client
	snapshots map[string]map[string]map[string]bool // id -> "table/uuid" -> the row's tags at that id
	pending   map[string]string                     // session/request id -> id the client asked with
	remember  bool
	Log       []string
}

func (s *failoverServer) fresh() string {
	s.n++
	return mkUUID(770000 + s.n)
}

func (s *failoverServer) rewrite(session int, toClient bool, raw json.RawMessage) json.RawMessage {
	var msg map[string]json.RawMessage
	if json.Unmarshal(raw, &msg) != nil {
		return raw
	}
	s.mu.Lock()
	defer s.mu.Unlock()
	var method string
	_ = json.Unmarshal(msg["method"], &method)
	if !toClient {
		if method == "monitor_cond_since" {
			var params []json.RawMessage
			if json.Unmarshal(msg["params"], &params) == nil && len(params) >= 4 {
				var last string
				_ = json.Unmarshal(params[3], &last)
				s.pending[fmt.Sprintf("%d/%s", session, msg["id"])] = last
				s.Log = append(s.Log, "request since "+last)
			}
		}
		return raw
	}
	if method == "update2" {
		var params []json.RawMessage
		if json.Unmarshal(msg["params"], &params) == nil && len(params) == 2 {
			id := s.fresh()
			// the state after this notification: computed from the notification itself
			snap := map[string]map[string]bool{}
			for k, tg := range s.snapshots[s.current] {
				snap[k] = copyTags(tg)
			}
			var tu map[string]map[string]map[string]json.RawMessage
			_ = json.Unmarshal(params[1], &tu)
			for t, rows := range tu {
				for u, ru := range rows {
					if ins, ok := ru["insert"]; ok {
						snap[t+"/"+u] = tagsOf(ins)
					} else if mod, ok := ru["modify"]; ok {
						cur := copyTags(snap[t+"/"+u])
						for e := range tagsOf(mod) { // a set difference: what is there goes, what is not comes
							if cur[e] {
								delete(cur, e)
							} else {
								cur[e] = true
							}
						}
						snap[t+"/"+u] = cur
					} else {
						delete(snap, t+"/"+u)
					}
				}
			}
			s.snapshots[id], s.current = snap, id
			idj, _ := json.Marshal(id)
			np, _ := json.Marshal([]json.RawMessage{params[0], idj, params[1]})
			msg["method"], msg["params"] = json.RawMessage(`"update3"`), np
			out, _ := json.Marshal(msg)
			s.Log = append(s.Log, "update3 id="+id)
			return out
		}
		return raw
	}
	key := fmt.Sprintf("%d/%s", session, msg["id"])
	asked, ok := s.pending[key]
	if !ok {
		return raw
	}
	delete(s.pending, key)
	var res []json.RawMessage
	if json.Unmarshal(msg["result"], &res) != nil || len(res) != 3 {
		return raw
	}
	var all map[string]map[string]map[string]json.RawMessage
	if json.Unmarshal(res[2], &all) != nil {
		return raw
	}
	now := map[string]map[string]bool{}
	for t, rows := range all {
		for u, ru := range rows {
			now[t+"/"+u] = tagsOf(ru["initial"])
		}
	}
	id := s.fresh()
	s.snapshots[id], s.current = now, id
	idj, _ := json.Marshal(id)
	old, known := s.snapshots[asked]
	if !s.remember || !known {
		nr, _ := json.Marshal([]json.RawMessage{json.RawMessage("false"), idj, res[2]})
		msg["result"] = nr
		s.Log = append(s.Log, fmt.Sprintf("reply found=false id=%s (%d rows)", id, len(now)))
		out, _ := json.Marshal(msg)
		return out
	}
	delta := map[string]map[string]map[string]json.RawMessage{}
	put := func(t, u string, ru map[string]json.RawMessage) {
		if delta[t] == nil {
			delta[t] = map[string]map[string]json.RawMessage{}
		}
		delta[t][u] = ru
	}
	ins, del, mod := 0, 0, 0
	for t, rows := range all {
		for u, ru := range rows {
			was, had := old[t+"/"+u]
			if !had {
				put(t, u, map[string]json.RawMessage{"insert": ru["initial"]})
				ins++
				continue
			}
			var diff []string
			for e := range was {
				if !now[t+"/"+u][e] {
					diff = append(diff, e)
				}
			}
			for e := range now[t+"/"+u] {
				if !was[e] {
					diff = append(diff, e)
				}
			}
			if len(diff) > 0 {
				sort.Strings(diff)
				dj, _ := json.Marshal(map[string]interface{}{"tags": []interface{}{"set", diff}})
				put(t, u, map[string]json.RawMessage{"modify": dj})
				mod++
			}
		}
	}
	for k := range old {
		if _, still := now[k]; !still {
			for i := 0; i < len(k); i++ {
				if k[i] == '/' {
					put(k[:i], k[i+1:], map[string]json.RawMessage{"delete": json.RawMessage("null")})
					del++
				}
			}
		}
	}
	dj, _ := json.Marshal(delta)
	nr, _ := json.Marshal([]json.RawMessage{json.RawMessage("true"), idj, dj})
	msg["result"] = nr
	s.Log = append(s.Log, fmt.Sprintf("reply found=true since=%s id=%s (%d inserted, %d modified, %d deleted since)", asked, id, ins, mod, del))
	out, _ := json.Marshal(msg)
	return out
}

func copyTags(m map[string]bool) map[string]bool {
	out := map[string]bool{}
	for k := range m {
		out[k] = true
	}
	return out
}

// tagsOf: the "tags" column of a row in OVS notation (a string, or ["set", [...]])
func tagsOf(row json.RawMessage) map[string]bool {
	out := map[string]bool{}
	var r map[string]json.RawMessage
	if json.Unmarshal(row, &r) != nil {
		return out
	}
	var one string
	if json.Unmarshal(r["tags"], &one) == nil {
		out[one] = true
		return out
	}
	var set []json.RawMessage
	if json.Unmarshal(r["tags"], &set) == nil && len(set) == 2 {
		var es []string
		_ = json.Unmarshal(set[1], &es)
		for _, e := range es {
			out[e] = true
		}
	}
	return out
}

type failoverCase struct {
	Steps     []string `json:"steps"`
	ServerLog []string `json:"server_log"`
}

func c16Failover(r *Run, h int) {
	rng := r.Rng
	spec := SchemaSpec{Name: "db", Tables: []TableSpec{{Name: "T", IsRoot: true, Cols: []ColSpec{
		{Name: "name", Type: ColType{Kind: "atom", Key: "string", Min: 1, Max: 1}},
		{Name: "n", Type: ColType{Kind: "atom", Key: "integer", Min: 1, Max: 1}},
		{Name: "tags", Type: ColType{Kind: "set", Key: "string", Min: 0, Max: -1}}}}}}
	ts := TxnSchema{Spec: spec, Specs: map[string][]ISpec{"T": {}}}
	rig, err := newRig(ts)
	if err != nil {
		r.Violation("rig", nil, err.Error(), "", false, "cannot start the server", "")
		return
	}
	defer rig.Close()
	px, err := newProxy(rig.sock)
	if err != nil {
		r.Violation("rig", nil, err.Error(), "", false, "cannot start the proxy", "")
		return
	}
	defer px.Close()
	srv := &failoverServer{snapshots: map[string]map[string]map[string]bool{}, pending: map[string]string{}}
	px.rewrite = srv.rewrite
	cs := &failoverCase{}
	fail := func(impl, want, why string) {
		srv.mu.Lock()
		cs.ServerLog = append([]string{}, srv.Log...)
		srv.mu.Unlock()
		r.Violation("failover", cs, impl, want, true, why, "")
	}
	ctx, cancel := ctxT(60 * time.Second)
	defer cancel()
	writer, _, err := rig.newClient(rig.endpoint())
	if err != nil || writer.Connect(ctx) != nil {
		r.Violation("rig", nil, fmt.Sprint(err), "", false, "writer cannot connect", "")
		return
	}
	defer writer.Close()
	next := 0
	var live []string
	commit := func(what string) {
		k := 1 + rng.Intn(2)
		for ; k > 0; k-- {
			if len(live) > 0 && rng.Intn(3) == 0 {
				// a change of a set column: its notification is a difference (applied twice, it undoes itself)
				u := live[rng.Intn(len(live))]
				tag := fmt.Sprintf("g%d", rng.Intn(3))
				mut := []string{"insert", "delete"}[rng.Intn(2)]
				_, _ = writer.Transact(ctx, OperationJ{Op: "mutate", Table: "T", Where: byUUID(u), Mutations: []MutationJ{{Col: "tags", Mutator: mut, Val: VS(AS(tag))}}}.toOvs())
				cs.Steps = append(cs.Steps, fmt.Sprintf("%s: %s tag %s of %s", what, mut, tag, u))
			} else if len(live) > 1 && rng.Intn(3) == 0 {
				i := rng.Intn(len(live))
				u := live[i]
				live = append(live[:i], live[i+1:]...)
				_, _ = writer.Transact(ctx, OperationJ{Op: "delete", Table: "T", Where: byUUID(u)}.toOvs())
				cs.Steps = append(cs.Steps, what+": delete "+u)
			} else {
				next++
				u := mkUUID(next)
				live = append(live, u)
				_, _ = writer.Transact(ctx, OperationJ{Op: "insert", Table: "T", UUID: u, Row: Row{"name": VA(AS(fmt.Sprintf("r%d", next))), "n": VA(AI(int64(next)))}}.toOvs())
				cs.Steps = append(cs.Steps, what+": insert "+u)
			}
		}
	}
	commit("before the client connects")
	a, adb, err := rig.newClient(px.endpoint(), client.WithReconnect(2*time.Second, backoff.NewConstantBackOff(3*time.Millisecond)))
	if err != nil {
		r.Violation("rig", nil, err.Error(), "", false, "cannot create the client", "")
		return
	}
	defer a.Close()
	if err := a.Connect(ctx); err != nil {
		fail(err.Error(), "connected", "the client cannot connect")
		return
	}
	if _, err := a.Monitor(ctx, &client.Monitor{Method: "monitor_cond_since", Tables: []client.TableMonitor{{Table: "T"}}, LastTransactionID: "00000000-0000-0000-0000-000000000000"}); err != nil {
		fail(err.Error(), "monitor established", "Monitor failed")
		return
	}
	cols := map[string][]string{"T": nil}
	converged := func(stage string) bool {
		var want, got string
		for try := 0; try < 500; try++ {
			want = dumpCanon(projectDump(ts.Spec, rig.im.dump(), cols))
			if a.Connected() {
				got = dumpCanon(projectDump(ts.Spec, cacheDump(a, adb, []string{"T"}), cols))
				if got == want {
					return true
				}
			}
			time.Sleep(5 * time.Millisecond)
		}
		if !a.Connected() {
			fail("Connected() = false for 2.5s", "connected", stage+": the client does not come back although the server is reachable")
		} else {
			fail(diffLines(got, want), "cache = database", stage+": the cache does not converge to the database")
		}
		return false
	}
	commit("connected")
	if !converged("before the first cut") {
		return
	}
	rounds := 2 + rng.Intn(3)
	kinds := []string{}
	for k := 0; k < rounds; k++ {
		remember := rng.Intn(2) == 0
		if k == 0 {
			remember = false // a server that has lost its history first
		}
		if k == 1 {
			remember = true // then one that remembers
		}
		kind := "forgot"
		if remember {
			kind = "remembers"
		}
		kinds = append(kinds, kind)
		srv.mu.Lock()
		srv.remember = remember
		srv.mu.Unlock()
		sessions := px.sessionCount()
		px.block(true)
		px.cutNow()
		cs.Steps = append(cs.Steps, fmt.Sprintf("connection lost; the next server %s", kind))
		if rng.Intn(4) != 0 {
			commit("while away")
		}
		// sometimes a transaction is committed between the reply of the restarted monitor and its application:
		// its notification is held back, applied after the reply, and its id is the one to ask with next time
		var pp *pausePoint
		if rng.Intn(2) == 0 {
			pp = pauses.arm("monitor.reply-received")
		}
		px.block(false)
		if pp != nil {
			if pp.waitReached(5 * time.Second) {
				commit("between the reply and its application")
				time.Sleep(10 * time.Millisecond) // (the notification reaches the client, which holds it back)
			}
			pp.Release()
			pauses.disarm("monitor.reply-received")
		}
		for try := 0; try < 3000 && px.sessionCount() == sessions; try++ {
			time.Sleep(time.Millisecond)
		}
		if !converged(fmt.Sprintf("after reconnect %d (servers so far: %v)", k+1, kinds)) {
			return
		}
		// sometimes nothing at all is committed between two losses of the connection
		if rng.Intn(3) == 0 {
			commit("connected")
			if !converged(fmt.Sprintf("after the transactions that followed reconnect %d", k+1)) {
				return
			}
		}
	}
	sort.Strings(kinds)
	r.Case("failover", fmt.Sprintf("%d/%d", r.Seed, h))
	srv.mu.Lock()
	for _, l := range srv.Log {
		if len(l) > 16 && l[:16] == "reply found=true" {
			r.Count("failover:found-true-replies")
		}
		if len(l) > 17 && l[:17] == "reply found=false" {
			r.Count("failover:found-false-replies")
		}
	}
	srv.mu.Unlock()
}
