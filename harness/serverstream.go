package main

// The same transaction histories as txnprops.go, but submitted through a real
// OvsdbServer (server.Transact decides whether to notify and commit) by a real
// client, with a monitoring client attached: the commit decision, the
// notifications and the stored rows are compared with the engine run directly.

import (
	"fmt"
	"strings"
	"time"

	"github.com/ovn-org/libovsdb/ovsdb"
)

func serverTxnStream(r *Run, prop string, nHist int) {
	for h := 0; h < nHist; h++ {
		ts := genTxnSchema(r.Rng, prop != "C06" || r.Rng.Intn(2) == 0)
		rig, err := newRig(ts)
		if err != nil {
			r.Violation("server", nil, err.Error(), "", false, "cannot start the server", "")
			return
		}
		func() {
			defer rig.Close()
			ctx, cancel := ctxT(30 * time.Second)
			defer cancel()
			writer, _, err := rig.newClient(rig.endpoint())
			if err != nil || writer.Connect(ctx) != nil {
				return
			}
			defer writer.Close()
			mon, mdb, err := rig.newClient(rig.endpoint())
			if err != nil || mon.Connect(ctx) != nil {
				return
			}
			defer mon.Close()
			if _, err := mon.MonitorAll(ctx); err != nil {
				r.Violation("server", map[string]interface{}{"model": ts.modelJSON()}, err.Error(), "", true, "MonitorAll failed", "")
				return
			}
			cols := map[string][]string{}
			for _, t := range ts.Spec.Tables {
				cols[t.Name] = nil
			}
			ref := newImplDB(ts) // the engine alone, fed the same transactions
			sh := newShadow()
			var txns []TxnJ
			nT := 4 + r.Rng.Intn(7)
			for ti := 0; ti < nT; ti++ {
				txn := genTxn(r.Rng, ts, sh, 1+r.Rng.Intn(5))
				clampWaits(&txn)
				txns = append(txns, txn)
				cs := map[string]interface{}{"model": ts.modelJSON(), "txns": txns}
				before := rig.im.dump()
				cacheBefore := dumpCanon(projectDump(ts.Spec, cacheDump(mon, mdb, tablesOf(cols)), cols))
				r.InFlight("server", cs, "the server crashed while executing a transaction")
				res, err := writer.Transact(ctx, toOvsOps(txn.Ops)...)
				r.Landed()
				if err != nil {
					// rejected by the client-side validation or the connection: nothing may have changed
					res = []ovsdb.OperationResult{{Error: err.Error()}}
				}
				failed := false
				for _, x := range res {
					if x.Error != "" {
						failed = true
					}
				}
				after := rig.im.dump()
				sh.load(after)
				cacheAfter := dumpCanon(projectDump(ts.Spec, cacheDump(mon, mdb, tablesOf(cols)), cols))
				key := ""
				if failed && len(res) > 1 {
					key = fmt.Sprintf("%d|%d", h, ti)
				}
				r.Case("server", key)
				if failed {
					r.Count("server:rejected")
					if a, b := dumpCanon(before), dumpCanon(after); a != b {
						r.Violation("server", cs, diffLines(b, a), "database unchanged", true,
							fmt.Sprintf("transaction %d was answered with an error but changed the database", ti), "")
						return
					}
					if cacheBefore != cacheAfter {
						r.Violation("server", cs, diffLines(cacheAfter, cacheBefore), "no notification", true,
							fmt.Sprintf("transaction %d was answered with an error but a monitor was notified of changes", ti), "")
						return
					}
					continue
				}
				r.Count("server:accepted")
				// the engine alone must accept it too and end in the same state
				out := ref.transact(txn.Ops, nil)
				if out.Panic != "" || hasErr(out.Results) || !out.Committed || out.CommitErr != "" {
					r.Violation("server", cs, "accepted by the server", fmt.Sprintf("engine: %+v %s", out.Results, out.CommitErr), true,
						fmt.Sprintf("transaction %d was accepted by the server although the engine rejects it", ti), "")
					return
				}
				if a, b := dumpCanon(after), dumpCanon(ref.dump()); a != b {
					r.Violation("server", cs, diffLines(a, b), "engine result", true,
						fmt.Sprintf("transaction %d: the database behind the server differs from the engine's result", ti), "")
					return
				}
				if why := integrityOracle(ts, after); why != "" && prop == "C04" {
					r.Violation("server", cs, why, "", true, fmt.Sprintf("transaction %d: integrity broken behind the server", ti), "")
					return
				}
				if why := uniquenessOracle(ts, after); why != "" && prop == "C06" {
					r.Violation("server", cs, why, "", true, fmt.Sprintf("transaction %d: duplicate index values behind the server", ti), "")
					return
				}
				if want := dumpCanon(projectDump(ts.Spec, after, cols)); cacheAfter != want {
					r.Violation("server", cs, diffLines(cacheAfter, want), "monitor cache = database", true,
						fmt.Sprintf("transaction %d: the monitoring client was not notified of exactly the committed changes", ti), "")
					return
				}
			}
		}()
	}
}

var _ = strings.Join
