package main

// C16, the last-transaction-id half. The in-memory server never sends update3
// and always answers monitor_cond_since with found=false, so the client never
// learns a transaction id from it. Here the proxy plays the part of a server
// with a transaction history: update2 notifications for monitor_cond_since
// monitors are forwarded as update3 with a fresh transaction id, and a
// monitor_cond_since reply is rewritten to [true, id, {}] when the client asks
// with the id of the last notification that monitor was sent and nothing was
// committed since ("the server still knows the id"), and left as found=false
// with the complete contents otherwise ("the server forgot the id": restart,
// compaction, fail-over). Whatever the server answers, the cache must converge
// to the database.

import (
	"encoding/json"
	"fmt"
	"os"
	"sync"
	"time"

	"github.com/cenkalti/backoff/v4"
	"github.com/ovn-org/libovsdb/client"
)

type sinceServer struct {
	mu       sync.Mutex
	n        int
	lastSent map[string]string    // monitor id (json) -> id of the last update3 sent for it
	since    map[string]bool      // monitor ids established with monitor_cond_since
	pending  map[string][2]string // session/request id -> (monitor id, last id the client asked with)
	forget   bool                 // the server no longer knows any id
	quiet    bool                 // nothing was committed since the last notification
	Log      []string             `json:"log"`
}

func newSinceServer() *sinceServer {
	return &sinceServer{lastSent: map[string]string{}, since: map[string]bool{}, pending: map[string][2]string{}}
}

func (s *sinceServer) set(forget, quiet bool) {
	s.mu.Lock()
	s.forget, s.quiet = forget, quiet
	s.mu.Unlock()
}

func (s *sinceServer) log() []string {
	s.mu.Lock()
	defer s.mu.Unlock()
	return append([]string{}, s.Log...)
}

func (s *sinceServer) rewrite(session int, toClient bool, raw json.RawMessage) json.RawMessage {
	var msg map[string]json.RawMessage
	if json.Unmarshal(raw, &msg) != nil {
		return raw
	}
	s.mu.Lock()
	defer s.mu.Unlock()
	var method string
	_ = json.Unmarshal(msg["method"], &method)
	if !toClient {
		if method == "monitor_cond_since" {
			var params []json.RawMessage
			if json.Unmarshal(msg["params"], &params) == nil && len(params) >= 4 {
				var last string
				_ = json.Unmarshal(params[3], &last)
				s.since[string(params[1])] = true
				s.pending[fmt.Sprintf("%d/%s", session, msg["id"])] = [2]string{string(params[1]), last}
				s.Log = append(s.Log, fmt.Sprintf("request %s last=%s", params[1], last))
			}
		}
		return raw
	}
	if method == "update2" {
		var params []json.RawMessage
		if json.Unmarshal(msg["params"], &params) == nil && len(params) == 2 && s.since[string(params[0])] {
			s.n++
			id := mkUUID(880000 + s.n)
			s.lastSent[string(params[0])] = id
			idj, _ := json.Marshal(id)
			np, _ := json.Marshal([]json.RawMessage{params[0], idj, params[1]})
			msg["method"] = json.RawMessage(`"update3"`)
			msg["params"] = np
			out, _ := json.Marshal(msg)
			s.Log = append(s.Log, fmt.Sprintf("update3 %s id=%s", params[0], id))
			return out
		}
		return raw
	}
	if _, isReply := msg["result"]; isReply {
		key := fmt.Sprintf("%d/%s", session, msg["id"])
		if req, ok := s.pending[key]; ok {
			delete(s.pending, key)
			var res []json.RawMessage
			if json.Unmarshal(msg["result"], &res) == nil && len(res) == 3 {
				last := s.lastSent[req[0]]
				if !s.forget && s.quiet && last != "" && req[1] == last {
					idj, _ := json.Marshal(last)
					nr, _ := json.Marshal([]json.RawMessage{json.RawMessage("true"), idj, json.RawMessage("{}")})
					msg["result"] = nr
					s.Log = append(s.Log, fmt.Sprintf("reply %s found=true", req[0]))
				} else {
					if last == "" {
						last = "00000000-0000-0000-0000-000000000000"
					}
					idj, _ := json.Marshal(last)
					nr, _ := json.Marshal([]json.RawMessage{json.RawMessage("false"), idj, res[2]})
					msg["result"] = nr
					s.Log = append(s.Log, fmt.Sprintf("reply %s found=false", req[0]))
				}
				out, _ := json.Marshal(msg)
				return out
			}
		}
	}
	return raw
}

type c16SinceCase struct {
	Model    interface{} `json:"model"`
	Monitors []monPlan   `json:"monitors"`
	Before   []TxnJ      `json:"before"`
	Rounds   []struct {
		Forget bool   `json:"server_forgot_ids"`
		Away   []TxnJ `json:"committed_while_away"`
		After  []TxnJ `json:"committed_after"`
	} `json:"rounds"`
	ServerLog []string `json:"server_log"`
}

func c16Since(r *Run, h int) {
	rng := r.Rng
	ts := genTxnSchema(rng, h%2 == 0)
	rig, err := newRig(ts)
	if err != nil {
		r.Violation("rig", nil, err.Error(), "", false, "cannot start the server", "")
		return
	}
	defer rig.Close()
	px, err := newProxy(rig.sock)
	if err != nil {
		r.Violation("rig", nil, err.Error(), "", false, "cannot start the proxy", "")
		return
	}
	defer px.Close()
	srv := newSinceServer()
	px.rewrite = srv.rewrite
	cs := &c16SinceCase{Model: ts.modelJSON()}
	tables := append([]TableSpec{}, ts.Spec.Tables...)
	rng.Shuffle(len(tables), func(i, j int) { tables[i], tables[j] = tables[j], tables[i] })
	nm := 1
	if len(tables) >= 2 && rng.Intn(2) == 0 {
		nm = 2
	}
	cols := map[string][]string{}
	for i := 0; i < nm; i++ {
		method := "monitor_cond_since"
		if nm == 2 && i == 1 && rng.Intn(2) == 0 {
			method = monitorMethods[rng.Intn(3)]
		}
		p := monPlan{Method: method, Cols: map[string][]string{}}
		var mine []TableSpec
		if nm == 1 {
			mine = tables
		} else if i == 0 {
			mine = tables[:1+rng.Intn(len(tables)-1)]
			tables = tables[len(mine):]
		} else {
			mine = tables
		}
		for _, t := range mine {
			p.Cols[t.Name] = nil
			cols[t.Name] = nil
		}
		cs.Monitors = append(cs.Monitors, p)
	}
	fail := func(impl, want, why string) {
		cs.ServerLog = srv.log()
		r.Violation("since", cs, impl, want, true, why, "")
	}
	ctx, cancel := ctxT(60 * time.Second)
	defer cancel()
	writer, _, err := rig.newClient(rig.endpoint())
	if err != nil || writer.Connect(ctx) != nil {
		r.Violation("rig", nil, fmt.Sprint(err), "", false, "writer cannot connect", "")
		return
	}
	defer writer.Close()
	sh := newShadow()
	commit := func(list *[]TxnJ, n int) {
		for i := 0; i < n; i++ {
			txn := genTxn(rng, ts, sh, 1+rng.Intn(4))
			clampWaits(&txn)
			*list = append(*list, txn)
			_, _ = writer.Transact(ctx, toOvsOps(txn.Ops)...)
			sh.load(rig.im.dump())
		}
	}
	commit(&cs.Before, 1+rng.Intn(3))
	a, adb, err := rig.newClient(px.endpoint(), client.WithReconnect(2*time.Second, backoff.NewConstantBackOff(3*time.Millisecond)))
	if err != nil {
		r.Violation("rig", nil, err.Error(), "", false, "cannot create the client", "")
		return
	}
	defer a.Close()
	if err := a.Connect(ctx); err != nil {
		fail(err.Error(), "connected", "the client cannot connect")
		return
	}
	for _, p := range cs.Monitors {
		if _, err := a.Monitor(ctx, p.monitor()); err != nil {
			fail(err.Error(), "monitor established", "Monitor failed")
			return
		}
	}
	converged := func(stage string) bool {
		var want, got string
		for try := 0; try < 400; try++ {
			want = dumpCanon(projectDump(ts.Spec, rig.im.dump(), cols))
			if a.Connected() {
				got = dumpCanon(projectDump(ts.Spec, cacheDump(a, adb, tablesOf(cols)), cols))
				if got == want {
					return true
				}
			}
			time.Sleep(5 * time.Millisecond)
		}
		if !a.Connected() {
			fail("Connected() = false for 2s", "connected", stage+": the client does not come back although the server is reachable")
		} else {
			fail(diffLines(got, want), "cache = database on monitored tables", stage+": the cache does not converge to the database")
		}
		return false
	}
	foundTrue := 0
	rounds := 1 + rng.Intn(3)
	for k := 0; k < rounds; k++ {
		cs.Rounds = append(cs.Rounds, struct {
			Forget bool   `json:"server_forgot_ids"`
			Away   []TxnJ `json:"committed_while_away"`
			After  []TxnJ `json:"committed_after"`
		}{})
		rd := &cs.Rounds[k]
		// notifications with transaction ids, all of them received
		commit(&cs.Before, 1+rng.Intn(3))
		if !converged(fmt.Sprintf("round %d, before the cut", k)) {
			return
		}
		rd.Forget = rng.Intn(3) == 0
		nAway := 0
		if rd.Forget || rng.Intn(3) == 0 {
			nAway = 1 + rng.Intn(3)
		}
		srv.set(rd.Forget, nAway == 0)
		sessions := px.sessionCount()
		px.block(true)
		px.cutNow()
		commit(&rd.Away, nAway)
		if nAway > 0 && rng.Intn(2) == 0 {
			// delete a row the client holds
			for _, row := range rig.im.dump() {
				if _, ok := cols[row.Table]; ok {
					txn := TxnJ{Ops: []OperationJ{{Op: "delete", Table: row.Table, Where: byUUID(row.UUID)}}}
					rd.Away = append(rd.Away, txn)
					_, _ = writer.Transact(ctx, toOvsOps(txn.Ops)...)
					sh.load(rig.im.dump())
					break
				}
			}
		}
		px.block(false)
		for try := 0; try < 3000 && px.sessionCount() == sessions; try++ {
			time.Sleep(time.Millisecond)
		}
		if !converged(fmt.Sprintf("round %d, after the reconnect (server forgot ids: %v, %d transactions while away)", k, rd.Forget, len(rd.Away))) {
			return
		}
		srv.set(rd.Forget, false)
		commit(&rd.After, rng.Intn(3))
		if !converged(fmt.Sprintf("round %d, after further transactions", k)) {
			return
		}
	}
	for _, l := range srv.log() {
		if len(l) > 10 && l[len(l)-10:] == "found=true" {
			foundTrue++
		}
	}
	if os.Getenv("VERIF_DEBUG") != "" {
		fmt.Fprintln(realStderr, "---- since run", h, "monitors", nm)
		for _, l := range srv.log() {
			fmt.Fprintln(realStderr, "  ", l)
		}
	}
	key := ""
	if foundTrue > 0 {
		key = fmt.Sprint(h)
	}
	r.Case("since", key)
	r.Count(fmt.Sprintf("since:monitors:%d", nm))
	r.Count(fmt.Sprintf("since:monitors:%d:found-true-replies:%d", nm, foundTrue))
}

// c16Probe: the peer goes silent (nothing is closed, nothing gets through) while other clients commit
// transactions. A client with an inactivity check must notice, open a new session, and converge to the
// database; the notifications swallowed on the silent session are lost for good.
func c16Probe(r *Run, h int) (ok bool) {
	rng := r.Rng
	ts := genTxnSchema(rng, h%2 == 0)
	rig, err := newRig(ts)
	if err != nil {
		r.Violation("rig", nil, err.Error(), "", false, "cannot start the server", "")
		return
	}
	defer rig.Close()
	px, err := newProxy(rig.sock)
	if err != nil {
		r.Violation("rig", nil, err.Error(), "", false, "cannot start the proxy", "")
		return
	}
	defer px.Close()
	cs := &c16SinceCase{Model: ts.modelJSON()}
	cols := map[string][]string{}
	p := monPlan{Method: monitorMethods[rng.Intn(3)], Cols: map[string][]string{}}
	for _, t := range ts.Spec.Tables {
		p.Cols[t.Name] = nil
		cols[t.Name] = nil
	}
	cs.Monitors = []monPlan{p}
	fail := func(impl, want, why string) { r.Violation("probe", cs, impl, want, true, why, "") }
	ctx, cancel := ctxT(60 * time.Second)
	defer cancel()
	writer, _, err := rig.newClient(rig.endpoint())
	if err != nil || writer.Connect(ctx) != nil {
		r.Violation("rig", nil, fmt.Sprint(err), "", false, "writer cannot connect", "")
		return
	}
	defer writer.Close()
	sh := newShadow()
	commit := func(list *[]TxnJ, n int) {
		for i := 0; i < n; i++ {
			txn := genTxn(rng, ts, sh, 1+rng.Intn(4))
			clampWaits(&txn)
			*list = append(*list, txn)
			_, _ = writer.Transact(ctx, toOvsOps(txn.Ops)...)
			sh.load(rig.im.dump())
		}
	}
	commit(&cs.Before, 1+rng.Intn(3))
	probe := time.Duration(30+rng.Intn(40)) * time.Millisecond
	a, adb, err := rig.newClient(px.endpoint(), client.WithInactivityCheck(probe, 2*time.Second, backoff.NewConstantBackOff(3*time.Millisecond)))
	if err != nil {
		r.Violation("rig", nil, err.Error(), "", false, "cannot create the client", "")
		return
	}
	defer a.Close()
	if err := a.Connect(ctx); err != nil {
		fail(err.Error(), "connected", "the client cannot connect")
		return
	}
	if _, err := a.Monitor(ctx, p.monitor()); err != nil {
		fail(err.Error(), "monitor established", "Monitor failed")
		return
	}
	converged := func(stage string) bool {
		var want, got string
		for try := 0; try < 600; try++ {
			want = dumpCanon(projectDump(ts.Spec, rig.im.dump(), cols))
			if a.Connected() {
				got = dumpCanon(projectDump(ts.Spec, cacheDump(a, adb, tablesOf(cols)), cols))
				if got == want {
					return true
				}
			}
			time.Sleep(5 * time.Millisecond)
		}
		fail(diffLines(got, want), "cache = database on monitored tables", stage+": the cache does not converge to the database")
		return false
	}
	rounds := 1 + rng.Intn(2)
	for k := 0; k < rounds; k++ {
		cs.Rounds = append(cs.Rounds, struct {
			Forget bool   `json:"server_forgot_ids"`
			Away   []TxnJ `json:"committed_while_away"`
			After  []TxnJ `json:"committed_after"`
		}{})
		rd := &cs.Rounds[k]
		// a live connection with traffic well beyond the probe interval is not dropped
		sessions := px.sessionCount()
		for i := 0; i < 3; i++ {
			commit(&cs.Before, 1)
			time.Sleep(probe / 2)
		}
		time.Sleep(3 * probe)
		if !converged(fmt.Sprintf("round %d, before the silence", k)) {
			return
		}
		if n := px.sessionCount(); n != sessions {
			// not a violation: on a loaded machine an answer can take longer than the probe interval, and
			// dropping the connection then is what the probe is for
			r.Count("probe:live-connection-dropped")
			sessions = n
		}
		px.silence()
		commit(&rd.Away, 1+rng.Intn(3))
		noticed := false
		for try := 0; try < 1500 && !noticed; try++ {
			noticed = px.sessionCount() > sessions
			if !noticed {
				time.Sleep(2 * time.Millisecond)
			}
		}
		if !noticed {
			fail(fmt.Sprintf("no new session 3s after the peer went silent (probe interval %v)", probe), "a reconnect", fmt.Sprintf("round %d: the inactivity probe did not detect a silent peer", k))
			return
		}
		if !converged(fmt.Sprintf("round %d, after the silent peer was replaced", k)) {
			return
		}
		commit(&rd.After, rng.Intn(3))
		if !converged(fmt.Sprintf("round %d, after further transactions", k)) {
			return
		}
	}
	r.Case("probe", fmt.Sprint(h))
	return true
}
