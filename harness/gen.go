package main

// Seeded generators over the supported type space. Universes are small so
// that collisions (equal elements, overlapping keys, values returning to the
// default) are frequent.

import "math/rand"

var atomicTypes = []string{"integer", "real", "boolean", "string", "uuid"}

var uuidPool = []string{
	"00000000-0000-0000-0000-000000000000",
	"11111111-1111-4111-8111-111111111111",
	"22222222-2222-4222-8222-222222222222",
	"33333333-3333-4333-8333-333333333333",
	"44444444-4444-4444-8444-444444444444",
	"55555555-5555-4555-8555-555555555555",
}
var strPool = []string{"", "a", "b", "c", "d", "e"}

// (integers beyond 2^53: what the decoders lost before the repair of D5; reals stay small dyadic numbers, on
// which float64 arithmetic is the exact arithmetic of the model)
// (no two of them round to the same float64: the normal forms of the wire streams print numbers through one)
var intPool = []int64{0, 1, 2, 3, -1, 7, 1 << 40, 1<<53 + 1, -(1<<53 + 1), 1<<63 - 1, -1 << 63}
var realPool = []float64{0, 0.5, 1, -1.5, 2.25, 8}

func genAtom(rng *rand.Rand, t string) Atom {
	switch t {
	case "integer":
		return AI(intPool[rng.Intn(len(intPool))])
	case "real":
		return AR(realPool[rng.Intn(len(realPool))])
	case "boolean":
		return AB(rng.Intn(2) == 0)
	case "string":
		return AS(strPool[rng.Intn(len(strPool))])
	case "uuid":
		return AU(uuidPool[rng.Intn(len(uuidPool))])
	}
	panic("bad type " + t)
}

func genColType(rng *rand.Rand) ColType {
	k := atomicTypes[rng.Intn(len(atomicTypes))]
	switch rng.Intn(4) {
	case 0:
		return ColType{Kind: "atom", Key: k, Min: 1, Max: 1}
	case 1:
		return ColType{Kind: "opt", Key: k, Min: 0, Max: 1}
	case 2:
		// unlimited, and finite bounds above one (real schemas have sets of up to 4096 elements)
		return ColType{Kind: "set", Key: k, Min: 0, Max: []int{-1, -1, 5, 4096}[rng.Intn(4)]}
	default:
		v := atomicTypes[rng.Intn(len(atomicTypes))]
		return ColType{Kind: "map", Key: k, Val: v, Min: 0, Max: []int{-1, -1, 5}[rng.Intn(3)]}
	}
}

// genValue draws a well-formed value of type ct: sets without duplicates,
// maps with unique keys.
func genValue(rng *rand.Rand, ct ColType) *Value {
	switch ct.Kind {
	case "atom":
		return VA(genAtom(rng, ct.Key))
	case "opt":
		if rng.Intn(3) == 0 {
			return VO(nil)
		}
		a := genAtom(rng, ct.Key)
		return VO(&a)
	case "set":
		n := rng.Intn(5)
		seen := map[string]bool{}
		out := []Atom{}
		for i := 0; i < n; i++ {
			a := genAtom(rng, ct.Key)
			if seen[a.Key()] {
				continue
			}
			seen[a.Key()] = true
			out = append(out, a)
		}
		return &Value{K: 'S', S: out}
	case "map":
		n := rng.Intn(5)
		seen := map[string]bool{}
		out := [][2]Atom{}
		for i := 0; i < n; i++ {
			a := genAtom(rng, ct.Key)
			if seen[a.Key()] {
				continue
			}
			seen[a.Key()] = true
			out = append(out, [2]Atom{a, genAtom(rng, ct.Val)})
		}
		return &Value{K: 'M', M: out}
	}
	panic("bad kind")
}
