package main

// C13: cached models are isolated copies; Clone and Equal keep their contract.
// Run-time struct types over generated schemas (all column kinds, including
// maps keyed by real and boolean) and hand-written struct types; every read
// path of the cache and of the client API; every mutation a caller can perform
// on a model it got back or handed in.

import (
	"context"
	"fmt"
	"reflect"
	"time"

	"github.com/ovn-org/libovsdb/cache"
	"github.com/ovn-org/libovsdb/client"
	"github.com/ovn-org/libovsdb/model"
)

func init() { props["C13"] = runC13 }

// a hand-written model type, cloned by the generic path
type handModel struct {
	UUID  string            `ovsdb:"_uuid"`
	Name  string            `ovsdb:"name"`
	N     int               `ovsdb:"n"`
	Tag   *string           `ovsdb:"tag"`
	S     []string          `ovsdb:"s"`
	M     map[string]string `ovsdb:"m"`
	Local []int             // not mapped
}

func handSchema() TxnSchema {
	spec := SchemaSpec{Name: "db", Tables: []TableSpec{{Name: "H", IsRoot: true, Cols: []ColSpec{
		{Name: "name", Type: ColType{Kind: "atom", Key: "string", Min: 1, Max: 1}},
		{Name: "n", Type: ColType{Kind: "atom", Key: "integer", Min: 1, Max: 1}},
		{Name: "tag", Type: ColType{Kind: "opt", Key: "string", Min: 0, Max: 1}},
		{Name: "s", Type: ColType{Kind: "set", Key: "string", Min: 0, Max: -1}},
		{Name: "m", Type: ColType{Kind: "map", Key: "string", Val: "string", Min: 0, Max: -1}}}}}}
	return TxnSchema{Spec: spec, Specs: map[string][]ISpec{"H": {}}}
}

// mutateModel changes every mapped field of a model in place, in all the ways a
// caller can: overwrite a scalar, write through a pointer, overwrite inside a
// slice, append to a slice, insert into and overwrite inside a map
func mutateModel(m model.Model) int {
	v := reflect.ValueOf(m).Elem()
	n := 0
	for i := 0; i < v.NumField(); i++ {
		f := v.Field(i)
		if v.Type().Field(i).Tag.Get("ovsdb") == "" || v.Type().Field(i).Tag.Get("ovsdb") == "_uuid" {
			continue
		}
		n += scramble(f)
	}
	return n
}

func scramble(f reflect.Value) int {
	switch f.Kind() {
	case reflect.String:
		f.SetString(f.String() + "~mutated")
		return 1
	case reflect.Int, reflect.Int64:
		f.SetInt(f.Int() + 1000003)
		return 1
	case reflect.Float64:
		f.SetFloat(f.Float() + 1000003.5)
		return 1
	case reflect.Bool:
		f.SetBool(!f.Bool())
		return 1
	case reflect.Ptr:
		if f.IsNil() {
			return 0
		}
		return scramble(f.Elem()) // through the pointer: the pointee is shared if the copy was shallow
	case reflect.Slice:
		n := 0
		for i := 0; i < f.Len(); i++ {
			n += scramble(f.Index(i)) // in place: visible through a shared backing array
		}
		return n
	case reflect.Map:
		n := 0
		for _, k := range f.MapKeys() {
			nv := reflect.New(f.Type().Elem()).Elem()
			nv.Set(f.MapIndex(k))
			scramble(nv)
			f.SetMapIndex(k, nv) // in place: visible through a shared map
			n++
		}
		if f.Len() > 0 || !f.IsNil() {
			k := reflect.New(f.Type().Key()).Elem()
			scramble(k)
			if !f.MapIndex(k).IsValid() { // a new key (not the overwriting of one just changed)
				f.SetMapIndex(k, reflect.Zero(f.Type().Elem()))
				n++
			}
		}
		return n
	}
	return 0
}

func runC13(r *Run) {
	r.Rule = "run-time struct types over generated tables (every column kind, optional pointers, sets, maps keyed by every atomic type) and a hand-written struct type; values with non-empty collections and non-nil pointers; for each read path of RowCache (Row, Rows, RowByModel, RowsByModels, RowsByCondition), of the client API (Get, List, WhereCache().List) and for models passed to event handlers: mutate every mapped field of the returned model in place (scalars, through pointers, inside slices, inside and into maps) and read again; for each write path (Create, Update): mutate the model handed in afterwards; Clone: equal to the original, sharing nothing with it in either direction; Equal: reflexive, symmetric, false when any one mapped field differs; non-trivial = model with at least one non-empty collection or non-nil pointer; distinct by (schema, model, path)"
	n := 150
	if r.Tier == "thorough" {
		n = 3000
	}
	for i := 0; i < n; i++ {
		t := TableSpec{Name: "T", IsRoot: true}
		for j := 2 + r.Rng.Intn(5); j > 0; j-- {
			c := genC09Col(r.Rng, len(t.Cols))
			c.RefTable, c.ValRefTable = "", ""
			t.Cols = append(t.Cols, c)
		}
		// a schema index on the first scalar string/integer column, and a client index on the next one,
		// so that lookups by model go through the indexes and not only through the uuid
		var idxCols []string
		for _, c := range t.Cols {
			if c.Type.Kind == "atom" && (c.Type.Key == "string" || c.Type.Key == "integer") && len(idxCols) < 2 {
				idxCols = append(idxCols, c.Name)
			}
		}
		var clientIdx map[string][]model.ClientIndex
		if len(idxCols) > 0 {
			t.Indexes = [][]string{{idxCols[0]}}
		}
		if len(idxCols) > 1 {
			clientIdx = map[string][]model.ClientIndex{"T": {{Columns: []model.ColumnKey{{Column: idxCols[1]}}}}}
		}
		spec := SchemaSpec{Name: "db", Tables: []TableSpec{t}}
		db, err := BuildDB(spec, clientIdx)
		if err != nil {
			continue
		}
		row := genC09Row(r.Rng, t)
		c13Laws(r, db, t, row)
		c13Cache(r, db, t, row, idxCols)
	}
	c13Hand(r)
	c13Client(r)
}

func nontrivialRow(t TableSpec, row Row) bool {
	for _, c := range t.Cols {
		v := row[c.Name]
		if (v.K == 'S' && len(v.S) > 0) || (v.K == 'M' && len(v.M) > 0) || (v.K == 'o' && v.O != nil) {
			return true
		}
	}
	return false
}

// c13Laws: Clone and Equal
func c13Laws(r *Run, db *DB, t TableSpec, row Row) {
	cs := map[string]interface{}{"table": t, "model": ModelJ{mkUUID(1), row}}
	key := ""
	if nontrivialRow(t, row) {
		key = fmt.Sprint(t, row.Canon())
	}
	r.Case("clone-equal", key)
	fail := func(impl, want, why string) { r.Violation("clone-equal", cs, impl, want, true, why, "") }
	a := db.NewModel("T", mkUUID(1), row)
	b := model.Clone(a)
	_, rb := db.RowOf("T", b)
	if rb.Canon() != row.Canon() {
		fail(rb.Canon(), row.Canon(), "Clone is not equal to its argument")
		return
	}
	if !model.Equal(a, b) || !model.Equal(b, a) || !model.Equal(a, a) {
		// Equal is DeepEqual for these types: nil and empty collections differ; only report when the values are the same Go values
		a2 := model.Clone(b)
		if !model.Equal(b, a2) || !model.Equal(a2, b) {
			fail("Equal(clone, clone of clone) = false", "true", "Equal does not hold between a model and its copy")
			return
		}
	}
	// sharing: mutate the clone, the original must not move; and the other way round
	if mutateModel(b) > 0 {
		if _, ra := db.RowOf("T", a); ra.Canon() != row.Canon() {
			fail(ra.Canon(), row.Canon(), "mutating a Clone changed the original: they share memory")
			return
		}
	}
	c := model.Clone(a)
	if mutateModel(a) > 0 {
		if _, rc := db.RowOf("T", c); rc.Canon() != row.Canon() {
			fail(rc.Canon(), row.Canon(), "mutating the original changed its Clone: they share memory")
			return
		}
	}
	// Equal distinguishes a difference in any one mapped field
	for _, col := range t.Cols {
		x := db.NewModel("T", mkUUID(1), row)
		y := model.Clone(x)
		f := reflect.ValueOf(y).Elem().FieldByName(db.fieldOf["T"][col.Name])
		if scramble(f) == 0 {
			continue
		}
		if model.Equal(x, y) || model.Equal(y, x) {
			fail("Equal = true", "false", "Equal does not see a difference in column "+col.Name)
			return
		}
	}
}

// c13Cache: the RowCache read and write paths
func c13Cache(r *Run, db *DB, t TableSpec, row Row, idxCols []string) {
	cs := map[string]interface{}{"table": t, "model": ModelJ{mkUUID(1), row}}
	tc, err := cache.NewTableCache(db.Model, nil, nil)
	if err != nil {
		return
	}
	rc := tc.Table("T")
	m := db.NewModel("T", mkUUID(1), row)
	if err := rc.Create(mkUUID(1), m, true); err != nil {
		return
	}
	read := func() string {
		_, got := db.RowOf("T", rc.Row(mkUUID(1)))
		return got.Canon()
	}
	base := read()
	fail := func(path, impl string) {
		r.Violation("isolation", cs, impl, base, true, "the cached row changed after the caller mutated a model ("+path+")", "")
	}
	key := ""
	if nontrivialRow(t, row) {
		key = fmt.Sprint(t, row.Canon())
	}
	check := func(path string, got model.Model) bool {
		r.Case("isolation:"+path, key)
		if got == nil || reflect.ValueOf(got).IsNil() {
			return true
		}
		mutateModel(got)
		if now := read(); now != base {
			fail(path, now)
			return false
		}
		return true
	}
	// write path: the model handed to Create
	if !check("Create(model)", m) {
		return
	}
	if !check("Row", rc.Row(mkUUID(1))) {
		return
	}
	for _, x := range rc.Rows() {
		if !check("Rows", x) {
			return
		}
	}
	if _, x, err := rc.RowByModel(db.NewModel("T", mkUUID(1), nil)); err == nil {
		if !check("RowByModel", x) {
			return
		}
	}
	if xs, err := rc.RowsByModels([]model.Model{db.NewModel("T", mkUUID(1), nil)}); err == nil {
		for _, x := range xs {
			if !check("RowsByModels", x) {
				return
			}
		}
	}
	// lookups that resolve through an index: a model carrying only the index column, no uuid
	for i, col := range idxCols {
		probe := db.NewModel("T", "", Row{col: row[col]})
		if i == 0 {
			if _, x, err := rc.RowByModel(probe); err == nil {
				if !check("RowByModel(schema index)", x) {
					return
				}
			}
		}
		if xs, err := rc.RowsByModels([]model.Model{probe}); err == nil {
			for _, x := range xs {
				if !check(fmt.Sprintf("RowsByModels(index %d)", i), x) {
					return
				}
			}
		}
	}
	if xs, err := rc.RowsByCondition(nil); err == nil {
		for _, x := range xs {
			if !check("RowsByCondition", x) {
				return
			}
		}
	}
	// write path: Update with a model, then mutate it
	row2 := genC09Row(r.Rng, t)
	m2 := db.NewModel("T", mkUUID(1), row2)
	if _, err := rc.Update(mkUUID(1), m2, false); err == nil {
		base = read()
		if !check("Update(model)", m2) {
			return
		}
	}
}

// c13Hand: the same laws on a hand-written struct type
func c13Hand(r *Run) {
	tag := "t"
	a := &handModel{UUID: mkUUID(1), Name: "a", N: 3, Tag: &tag, S: []string{"x", "y"}, M: map[string]string{"k": "v"}, Local: []int{1}}
	r.Case("clone-equal", "hand-written")
	fail := func(impl, want, why string) {
		r.Violation("clone-equal", map[string]string{"type": "hand-written struct"}, impl, want, true, why, "")
	}
	b := model.Clone(a).(*handModel)
	if !model.Equal(a, b) && !(b.Name == a.Name && b.N == a.N && *b.Tag == *a.Tag && reflect.DeepEqual(b.S, a.S) && reflect.DeepEqual(b.M, a.M)) {
		fail(fmt.Sprintf("%+v", b), fmt.Sprintf("%+v", a), "Clone of a hand-written model differs in a mapped field")
		return
	}
	*b.Tag = "changed"
	b.S[0] = "changed"
	b.M["k"] = "changed"
	b.M["new"] = "x"
	if *a.Tag != "t" || a.S[0] != "x" || a.M["k"] != "v" || len(a.M) != 1 {
		fail(fmt.Sprintf("%v %v %v", *a.Tag, a.S, a.M), "t [x y] map[k:v]", "a Clone of a hand-written model shares memory with the original")
		return
	}
	// the cache with a hand-written type
	ts := handSchema()
	cdm, err := model.NewClientDBModel("db", map[string]model.Model{"H": &handModel{}})
	if err != nil {
		return
	}
	sdb, _ := BuildDB(ts.Spec, nil)
	dbm, errs := model.NewDatabaseModel(sdb.Schema, cdm)
	if len(errs) > 0 {
		return
	}
	tc, err := cache.NewTableCache(dbm, nil, nil)
	if err != nil {
		return
	}
	rc := tc.Table("H")
	tag2 := "t"
	in := &handModel{UUID: mkUUID(1), Name: "a", N: 3, Tag: &tag2, S: []string{"x", "y"}, M: map[string]string{"k": "v"}}
	if err := rc.Create(mkUUID(1), in, true); err != nil {
		return
	}
	r.Case("isolation:hand-written", "hand-written")
	*in.Tag, in.S[0], in.M["k"] = "changed", "changed", "changed"
	out := rc.Row(mkUUID(1)).(*handModel)
	if *out.Tag != "t" || out.S[0] != "x" || out.M["k"] != "v" {
		fail(fmt.Sprintf("%v %v %v", *out.Tag, out.S, out.M), "t [x y] map[k:v]", "the cached row changed after the caller mutated the model it had handed to Create (hand-written type)")
		return
	}
	*out.Tag, out.S[0], out.M["k"] = "changed", "changed", "changed"
	out2 := rc.Row(mkUUID(1)).(*handModel)
	if *out2.Tag != "t" || out2.S[0] != "x" || out2.M["k"] != "v" {
		fail(fmt.Sprintf("%v %v %v", *out2.Tag, out2.S, out2.M), "t [x y] map[k:v]", "the cached row changed after the caller mutated a model returned by Row (hand-written type)")
	}
}

// c13Client: the client API read paths and event handlers, through a real server
func c13Client(r *Run) {
	n := 6
	if r.Tier == "thorough" {
		n = 60
	}
	for h := 0; h < n; h++ {
		ts := genTxnSchema(r.Rng, false)
		rig, err := newRig(ts)
		if err != nil {
			continue
		}
		func() {
			defer rig.Close()
			ctx, cancel := ctxT(20 * time.Second)
			defer cancel()
			sh := newShadow()
			for k := 0; k < 4; k++ {
				txn := genTxn(r.Rng, ts, sh, 3)
				clampWaits(&txn)
				rig.im.transact(txn.Ops, nil)
				sh.load(rig.im.dump())
			}
			c, cdb, err := rig.newClient(rig.endpoint())
			if err != nil || c.Connect(ctx) != nil {
				return
			}
			defer c.Close()
			// event handlers mutate what they are given
			c.Cache().AddEventHandler(&cache.EventHandlerFuncs{
				AddFunc:    func(table string, m model.Model) { mutateModel(m) },
				UpdateFunc: func(table string, o, n model.Model) { mutateModel(o); mutateModel(n) },
				DeleteFunc: func(table string, m model.Model) { mutateModel(m) },
			})
			if _, err := c.MonitorAll(ctx); err != nil {
				return
			}
			// a few changes so that update/delete events fire as well
			for k := 0; k < 3; k++ {
				txn := genTxn(r.Rng, ts, sh, 3)
				clampWaits(&txn)
				w, _, _ := rig.newClient(rig.endpoint())
				if w.Connect(ctx) == nil {
					_, _ = w.Transact(ctx, toOvsOps(txn.Ops)...)
					w.Close()
				}
				sh.load(rig.im.dump())
			}
			time.Sleep(20 * time.Millisecond) // let the dispatcher deliver (and the handlers scramble) the events
			cols := map[string][]string{}
			for _, t := range ts.Spec.Tables {
				cols[t.Name] = nil
			}
			want := dumpCanon(projectDump(ts.Spec, rig.im.dump(), cols))
			cs := map[string]interface{}{"model": ts.modelJSON()}
			snapshot := func() string { return dumpCanon(projectDump(ts.Spec, cacheDump(c, cdb, tablesOf(cols)), cols)) }
			r.Case("isolation:event-handlers", fmt.Sprint(h))
			if got := snapshot(); got != want {
				r.Violation("isolation", cs, diffLines(got, want), "cache = database", true, "event handlers that mutate the models they are given changed the cache", "")
				return
			}
			for _, t := range ts.Spec.Tables {
				st := cdb.types[t.Name]
				// List
				res := reflect.New(reflect.SliceOf(reflect.PtrTo(st)))
				if err := c.List(ctx, res.Interface()); err == nil {
					r.Case("isolation:List", fmt.Sprint(h, t.Name))
					for i := 0; i < res.Elem().Len(); i++ {
						mutateModel(res.Elem().Index(i).Interface())
					}
				}
				// Get
				for u := range sh.rows[t.Name] {
					m := cdb.NewModel(t.Name, u, nil)
					if err := c.Get(ctx, m); err == nil {
						r.Case("isolation:Get", fmt.Sprint(h, t.Name, u))
						mutateModel(m)
					}
				}
				// WhereCache(predicate).List: the predicate itself must not be able to change the cache either
				pred := reflect.MakeFunc(reflect.FuncOf([]reflect.Type{reflect.PtrTo(st)}, []reflect.Type{reflect.TypeOf(true)}, false),
					func(args []reflect.Value) []reflect.Value { return []reflect.Value{reflect.ValueOf(true)} })
				res2 := reflect.New(reflect.SliceOf(reflect.PtrTo(st)))
				func() {
					defer func() { _ = recover() }()
					if err := c.WhereCache(pred.Interface()).List(ctx, res2.Interface()); err == nil {
						r.Case("isolation:WhereCache", fmt.Sprint(h, t.Name))
						for i := 0; i < res2.Elem().Len(); i++ {
							mutateModel(res2.Elem().Index(i).Interface())
						}
					}
				}()
				if got := snapshot(); got != want {
					r.Violation("isolation", cs, diffLines(got, want), "cache = database", true, "mutating models returned by List/Get/WhereCache changed the cache (table "+t.Name+")", "")
					return
				}
			}
		}()
	}
}

var _ context.Context
var _ client.Client
