package main

// C18: a notification for a monitor the client has reaches it while a Monitor call for another table is
// waiting for its reply. The server is inside the transaction that notifies (it waits for the client's answer
// to the notification before it commits, and serves the new monitor request only after that), so the client has
// to handle the notification while Monitor() is in progress: whatever Monitor() holds while it waits must not
// be something the notification handler needs.

import (
	"encoding/json"
	"fmt"
	"sync"
	"time"

	"github.com/ovn-org/libovsdb/client"
)

func c18NotificationDuringMonitor(r *Run, h int) {
	rng := r.Rng
	ts := c18Schema()
	rig, err := newRig(ts)
	if err != nil {
		return
	}
	defer rig.Close()
	px, err := newProxy(rig.sock)
	if err != nil {
		return
	}
	defer px.Close()
	ctx, cancel := ctxT(60 * time.Second)
	defer cancel()
	row := pairRow(0)
	row["key"] = VA(AS("r1"))
	rig.im.transact([]OperationJ{{Op: "insert", Table: "Pair", UUID: mkUUID(1), Row: row}}, nil)
	writer, _, err := rig.newClient(rig.endpoint())
	if err != nil || writer.Connect(ctx) != nil {
		return
	}
	defer writer.Close()
	first, second := monitorMethods[rng.Intn(3)], monitorMethods[rng.Intn(3)]
	// the proxy holds the next notification back until it has seen the client's next monitor request
	var mu sync.Mutex
	hold := false
	release := make(chan struct{})
	var once sync.Once
	px.rewrite = func(session int, toClient bool, raw json.RawMessage) json.RawMessage {
		var msg struct {
			Method string `json:"method"`
		}
		if json.Unmarshal(raw, &msg) != nil {
			return raw
		}
		mu.Lock()
		h := hold
		mu.Unlock()
		if !h {
			return raw
		}
		if !toClient && len(msg.Method) >= 7 && msg.Method[:7] == "monitor" && msg.Method != "monitor_cancel" {
			once.Do(func() { close(release) })
			return raw
		}
		if toClient && len(msg.Method) >= 6 && msg.Method[:6] == "update" {
			select {
			case <-release:
			case <-time.After(5 * time.Second):
			}
		}
		return raw
	}
	a, _, err := rig.newClient(px.endpoint())
	if err != nil || a.Connect(ctx) != nil {
		return
	}
	defer a.Close()
	if _, err := a.Monitor(ctx, &client.Monitor{Method: first, Tables: []client.TableMonitor{{Table: "Pair"}}, LastTransactionID: "00000000-0000-0000-0000-000000000000"}); err != nil {
		return
	}
	cs := map[string]interface{}{"run": h, "first_monitor": first, "second_monitor": second}
	r.Case("notification-during-monitor", fmt.Sprint(h, first, second))
	mu.Lock()
	hold = true
	mu.Unlock()
	// a transaction that changes the monitored table: its notification is on its way (held by the proxy) ...
	txnDone := make(chan error, 1)
	go func() {
		nr := pairRow(int64(1 + h))
		_, err := writer.Transact(ctx, toOvsOps([]OperationJ{{Op: "update", Table: "Pair", Where: byUUID(mkUUID(1)), Row: nr}})...)
		txnDone <- err
	}()
	time.Sleep(time.Duration(1+rng.Intn(5)) * time.Millisecond)
	// ... when the client asks for one more monitor
	monDone := make(chan error, 1)
	go func() {
		mctx, mcancel := ctxT(4 * time.Second)
		defer mcancel()
		_, err := a.Monitor(mctx, &client.Monitor{Method: second, Tables: []client.TableMonitor{{Table: "Other"}}, LastTransactionID: "00000000-0000-0000-0000-000000000000"})
		monDone <- err
	}()
	stuck := func(what string) {
		r.Violation("notification-during-monitor", cs, what, "both return", true,
			"a notification for an existing monitor that arrives while Monitor() waits for its reply blocks the client (and the server's transaction with it)", "")
	}
	select {
	case err := <-monDone:
		if err != nil {
			// (a context that expires is a return, but only because the handler of the notification was stuck)
			stuck("Monitor returned " + err.Error())
			return
		}
	case <-time.After(8 * time.Second):
		stuck("Monitor did not return within 8s (its context allowed 4s)")
		return
	}
	select {
	case <-txnDone:
	case <-time.After(8 * time.Second):
		stuck("the transaction whose notification was in flight did not return")
		return
	}
}
