package main

// C16, leader-only mode: two servers, each with the _Server database next to
// the application database. Exactly one reports itself leader of the
// (clustered) application database. A leader-only client given both endpoints
// must attach to the leader, and when leadership moves it must leave the
// server that lost it, attach to the new leader and converge to that server's
// database.

import (
	"encoding/json"
	"fmt"
	"os"
	"path/filepath"
	"strings"
	"sync"
	"time"

	"github.com/cenkalti/backoff/v4"
	"github.com/go-logr/logr"
	"github.com/ovn-org/libovsdb/client"
	"github.com/ovn-org/libovsdb/database/inmemory"
	"github.com/ovn-org/libovsdb/model"
	"github.com/ovn-org/libovsdb/ovsdb"
	"github.com/ovn-org/libovsdb/ovsdb/serverdb"
	"github.com/ovn-org/libovsdb/server"
)

type leaderRig struct {
	Rig
	admin   client.Client // attached to _Server
	rowUUID string
	sid     string
}

func newLeaderRig(ts TxnSchema, sid string, leader bool) (*leaderRig, error) {
	db, err := BuildDB(ts.Spec, nil)
	if err != nil {
		return nil, err
	}
	sm, err := serverdb.FullDatabaseModel()
	if err != nil {
		return nil, err
	}
	d := inmemory.NewDatabase(map[string]model.ClientDBModel{"db": db.Client, "_Server": sm})
	if err := d.CreateDatabase("db", db.Schema); err != nil {
		return nil, err
	}
	if err := d.CreateDatabase("_Server", serverdb.Schema()); err != nil {
		return nil, err
	}
	sdm, errs := model.NewDatabaseModel(serverdb.Schema(), sm)
	if len(errs) > 0 {
		return nil, errs[0]
	}
	srv, err := server.NewOvsdbServer(d, db.Model, sdm)
	if err != nil {
		return nil, err
	}
	dir, err := os.MkdirTemp("", "verif-lrig-")
	if err != nil {
		return nil, err
	}
	g := &leaderRig{Rig: Rig{ts: ts, db: db, im: &ImplDB{ts: ts, db: db, d: d}, srv: srv, dir: dir, sock: filepath.Join(dir, "db.sock")}, sid: sid}
	go func() { _ = srv.Serve("unix", g.sock) }()
	for i := 0; i < 2000 && !srv.Ready(); i++ {
		time.Sleep(time.Millisecond)
	}
	if !srv.Ready() {
		g.Close()
		return nil, fmt.Errorf("server did not become ready")
	}
	lg := logr.Discard()
	g.admin, err = client.NewOVSDBClient(sm, client.WithEndpoint(g.endpoint()), client.WithLogger(&lg))
	if err != nil {
		g.Close()
		return nil, err
	}
	ctx, cancel := ctxT(10 * time.Second)
	defer cancel()
	if err := g.admin.Connect(ctx); err != nil {
		g.Close()
		return nil, err
	}
	cid, one := mkUUID(990001), 1
	// as a real server does, the _Server database lists itself too (standalone, always "leader"), and
	// sometimes a second standalone database: the leader check has to look at the row of its own database
	rowsS := []model.Model{&serverdb.Database{UUID: "self", Name: "_Server", Model: serverdb.DatabaseModelStandalone, Connected: true, Leader: true},
		&serverdb.Database{UUID: "row", Name: "db", Model: serverdb.DatabaseModelClustered, Connected: true, Leader: leader, Sid: &sid, Cid: &cid, Index: &one},
		&serverdb.Database{UUID: "other", Name: "aaa_other", Model: serverdb.DatabaseModelStandalone, Connected: true, Leader: true}}
	ops, err := g.admin.Create(rowsS...)
	if err != nil {
		g.Close()
		return nil, err
	}
	res, err := g.admin.Transact(ctx, ops...)
	if err != nil || len(res) == 0 || res[0].Error != "" {
		g.Close()
		return nil, fmt.Errorf("cannot create the _Server row: %v %v", err, res)
	}
	if len(res) < 2 {
		g.Close()
		return nil, fmt.Errorf("cannot create the _Server rows: %v", res)
	}
	g.rowUUID = res[1].UUID.GoUUID
	return g, nil
}

func (g *leaderRig) setLeader(leader bool) error {
	ctx, cancel := ctxT(5 * time.Second)
	defer cancel()
	op := ovsdb.Operation{Op: ovsdb.OperationUpdate, Table: "Database", Row: ovsdb.Row{"leader": leader},
		Where: []ovsdb.Condition{ovsdb.NewCondition("_uuid", ovsdb.ConditionEqual, ovsdb.UUID{GoUUID: g.rowUUID})}}
	res, err := g.admin.Transact(ctx, op)
	if err != nil {
		return err
	}
	if len(res) == 0 || res[0].Error != "" || res[0].Count != 1 {
		return fmt.Errorf("leader flag not updated: %v", res)
	}
	return nil
}

func (g *leaderRig) Close() {
	if g.admin != nil {
		g.admin.Close()
	}
	g.Rig.Close()
}

type c16LeaderCase struct {
	Model   interface{} `json:"model"`
	Leader0 int         `json:"first_leader"`
	Moves   int         `json:"leadership_moves"`
	Txns    [2][]TxnJ   `json:"txns_per_server"`
}

func c16Leader(r *Run, h int) (ok bool) {
	rng := r.Rng
	ts := genTxnSchema(rng, h%2 == 0)
	cs := &c16LeaderCase{Model: ts.modelJSON(), Leader0: rng.Intn(2)}
	fail := func(impl, want, why string) { r.Violation("leader", cs, impl, want, true, why, "") }
	var rigs [2]*leaderRig
	for i := range rigs {
		g, err := newLeaderRig(ts, mkUUID(970001+i), i == cs.Leader0)
		if err != nil {
			r.Violation("rig", nil, err.Error(), "", false, "cannot start a server with a _Server database", "")
			return false
		}
		defer g.Close()
		rigs[i] = g
	}
	ctx, cancel := ctxT(60 * time.Second)
	defer cancel()
	// the two servers hold different contents, so that it shows which one the client mirrors
	var writers [2]client.Client
	var shadows [2]*shadow
	for i, g := range rigs {
		w, _, err := g.newClient(g.endpoint())
		if err != nil || w.Connect(ctx) != nil {
			r.Violation("rig", nil, fmt.Sprint(err), "", false, "writer cannot connect", "")
			return false
		}
		defer w.Close()
		writers[i], shadows[i] = w, newShadow()
	}
	commit := func(i, n int) {
		for k := 0; k < n; k++ {
			txn := genTxn(rng, ts, shadows[i], 1+rng.Intn(4))
			clampWaits(&txn)
			cs.Txns[i] = append(cs.Txns[i], txn)
			_, _ = writers[i].Transact(ctx, toOvsOps(txn.Ops)...)
			shadows[i].load(rigs[i].im.dump())
		}
	}
	commit(0, 2+rng.Intn(3))
	commit(1, 2+rng.Intn(3))
	cdb, err := BuildDB(ts.Spec, nil)
	if err != nil {
		return false
	}
	lg := logr.Discard()
	order := []int{0, 1}
	if rng.Intn(2) == 0 {
		order = []int{1, 0}
	}
	// three endpoints: a server that is not there next to the two that are, at any place of the list (the
	// endpoint that accepts the connection may be the first, the middle or the last one)
	eps := []string{rigs[order[0]].endpoint(), rigs[order[1]].endpoint()}
	dead := fmt.Sprintf("unix:%s/nobody-%d.sock", rigs[0].dir, h)
	at := rng.Intn(3)
	eps = append(eps[:at], append([]string{dead}, eps[at:]...)...)
	a, err := client.NewOVSDBClient(cdb.Client, client.WithLogger(&lg), client.WithLeaderOnly(true),
		client.WithEndpoint(eps[0]), client.WithEndpoint(eps[1]), client.WithEndpoint(eps[2]),
		client.WithReconnect(2*time.Second, backoff.NewConstantBackOff(3*time.Millisecond)))
	if err != nil {
		r.Violation("rig", nil, err.Error(), "", false, "cannot create the client", "")
		return false
	}
	defer a.Close()
	if err := a.Connect(ctx); err != nil {
		fail(err.Error(), "connected to the leader", "a leader-only client cannot connect although one endpoint is the leader")
		return false
	}
	cols := map[string][]string{}
	for _, t := range ts.Spec.Tables {
		cols[t.Name] = nil
	}
	if _, err := a.MonitorAll(ctx); err != nil {
		fail(err.Error(), "monitor established", "MonitorAll failed")
		return false
	}
	leader := cs.Leader0
	attached := func(stage string) bool {
		var got, want, ep string
		for try := 0; try < 600; try++ {
			want = dumpCanon(projectDump(ts.Spec, rigs[leader].im.dump(), cols))
			if a.Connected() {
				ep = a.CurrentEndpoint()
				got = dumpCanon(projectDump(ts.Spec, cacheDump(a, cdb, tablesOf(cols)), cols))
				if ep == rigs[leader].endpoint() && got == want {
					return true
				}
			}
			time.Sleep(5 * time.Millisecond)
		}
		if ep != rigs[leader].endpoint() {
			fail("attached to "+ep+" (connected="+fmt.Sprint(a.Connected())+")", "attached to the leader "+rigs[leader].endpoint(), stage+": a leader-only client is not attached to the leader")
		} else {
			fail(diffLines(got, want), "cache = the leader's database", stage+": the cache does not converge to the database of the server the client is attached to")
		}
		return false
	}
	if !attached("after connecting") {
		return false
	}
	moves := 1 + rng.Intn(3)
	for k := 0; k < moves; k++ {
		cs.Moves = k + 1
		commit(leader, rng.Intn(3))
		// leadership moves: the old leader steps down first, then the other one takes over
		old := leader
		leader = 1 - leader
		commit(leader, 1+rng.Intn(2))
		if err := rigs[old].setLeader(false); err != nil {
			r.Violation("rig", nil, err.Error(), "", false, "cannot update the _Server row", "")
			return false
		}
		if rng.Intn(2) == 0 {
			time.Sleep(time.Duration(rng.Intn(20)) * time.Millisecond)
		}
		if err := rigs[leader].setLeader(true); err != nil {
			r.Violation("rig", nil, err.Error(), "", false, "cannot update the _Server row", "")
			return false
		}
		if !attached(fmt.Sprintf("after leadership move %d", k+1)) {
			return false
		}
		commit(leader, rng.Intn(3))
		if !attached(fmt.Sprintf("after leadership move %d and further transactions", k+1)) {
			return false
		}
	}
	r.Case("leader", fmt.Sprint(h))
	r.Count(fmt.Sprintf("leader:moves:%d", moves))
	return true
}

// c16LeaderLostEarly: leadership moves while the client is attaching -- after its leader check, before its
// monitor of the _Server database is set up -- so that the first thing the client sees of the row is "not the
// leader"; the row is then rewritten (its index moves) without ever saying "leader" again. The client must not
// stay with that server.
func c16LeaderLostEarly(r *Run, h int) (ok bool) {
	rng := r.Rng
	ts := genTxnSchema(rng, false)
	cs := &c16LeaderCase{Model: ts.modelJSON(), Leader0: rng.Intn(2)}
	fail := func(impl, want, why string) { r.Violation("leader", cs, impl, want, true, why, "") }
	var rigs [2]*leaderRig
	for i := range rigs {
		g, err := newLeaderRig(ts, mkUUID(970001+i), i == cs.Leader0)
		if err != nil {
			return false
		}
		defer g.Close()
		rigs[i] = g
	}
	first, other := cs.Leader0, 1-cs.Leader0
	ctx, cancel := ctxT(60 * time.Second)
	defer cancel()
	for i, g := range rigs {
		// different contents, so that it shows which server the client mirrors
		g.im.transact([]OperationJ{{Op: "insert", Table: ts.Spec.Tables[0].Name, UUID: mkUUID(100 + i), Row: Row{"name": VA(AS(fmt.Sprintf("srv%d", i))), "n": VA(AI(int64(i)))}}}, nil)
	}
	px, err := newProxy(rigs[first].sock)
	if err != nil {
		return false
	}
	defer px.Close()
	var once sync.Once
	moved := make(chan struct{})
	px.rewrite = func(session int, toClient bool, raw json.RawMessage) json.RawMessage {
		var msg struct {
			Method string            `json:"method"`
			Params []json.RawMessage `json:"params"`
		}
		if toClient || json.Unmarshal(raw, &msg) != nil || !strings.HasPrefix(msg.Method, "monitor") || len(msg.Params) == 0 || string(msg.Params[0]) != `"_Server"` {
			return raw
		}
		once.Do(func() {
			_ = rigs[first].setLeader(false)
			_ = rigs[other].setLeader(true)
			close(moved)
		})
		return raw
	}
	cdb, err := BuildDB(ts.Spec, nil)
	if err != nil {
		return false
	}
	lg := logr.Discard()
	eps := []string{px.endpoint(), rigs[other].endpoint()}
	if rng.Intn(2) == 0 {
		eps[0], eps[1] = eps[1], eps[0]
	}
	a, err := client.NewOVSDBClient(cdb.Client, client.WithLogger(&lg), client.WithLeaderOnly(true),
		client.WithEndpoint(eps[0]), client.WithEndpoint(eps[1]),
		client.WithReconnect(2*time.Second, backoff.NewConstantBackOff(3*time.Millisecond)))
	if err != nil {
		return false
	}
	defer a.Close()
	r.Case("leader", fmt.Sprint("early", h))
	r.Count("leader:lost-while-attaching")
	if err := a.Connect(ctx); err != nil {
		// (the move may make this very attempt fail: an application connects again)
		for try := 0; try < 50 && err != nil; try++ {
			time.Sleep(5 * time.Millisecond)
			cctx, ccancel := ctxT(2 * time.Second)
			err = a.Connect(cctx)
			ccancel()
			if err == client.ErrAlreadyConnected {
				err = nil
			}
		}
		if err != nil {
			fail(err.Error(), "connected", "a leader-only client cannot connect although one endpoint is the leader")
			return false
		}
	}
	select {
	case <-moved:
	case <-time.After(5 * time.Second):
		return true // the client never asked the first leader for its _Server monitor: nothing to see here
	}
	// the server that lost leadership rewrites its row: the index moves, "leader" stays false
	for k := 2; k < 30; k++ {
		if a.Connected() && a.CurrentEndpoint() == rigs[other].endpoint() {
			break
		}
		bctx, bcancel := ctxT(2 * time.Second)
		_, _ = rigs[first].admin.Transact(bctx, ovsdb.Operation{Op: ovsdb.OperationUpdate, Table: "Database", Row: ovsdb.Row{"index": k},
			Where: []ovsdb.Condition{ovsdb.NewCondition("_uuid", ovsdb.ConditionEqual, ovsdb.UUID{GoUUID: rigs[first].rowUUID})}})
		bcancel()
		time.Sleep(10 * time.Millisecond)
	}
	for try := 0; try < 600; try++ {
		if a.Connected() && a.CurrentEndpoint() == rigs[other].endpoint() {
			return true
		}
		time.Sleep(5 * time.Millisecond)
	}
	fail("attached to "+a.CurrentEndpoint()+" (connected="+fmt.Sprint(a.Connected())+")", "attached to the leader "+rigs[other].endpoint(),
		"a leader-only client stays with a server whose _Server row says, from the first time the client sees it, that it is not the leader")
	return false
}
