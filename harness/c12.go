package main

// C12: wire encoding round-trips every protocol value.
//
// Oracle (independent of the model): for a structurally generated value v of
// each wire type, decode(encode(v)) is the same value as v, and encoding it
// again gives the same JSON. "Same value" is decided on a normal form that
// erases only what the wire cannot carry by design: nil vs empty collections,
// Go integer vs float64 for a JSON number, and a one-element set vs its only
// element (RFC 7047: an <atom> is a set of exactly one element).
// For schemas the decoded value is also compared, member by member, with the
// JSON it was decoded from (through the exported accessors).

import (
	"bytes"
	"encoding/json"
	"fmt"
	"math"
	"reflect"
	"sort"
	"strings"

	"github.com/ovn-org/libovsdb/ovsdb"
)

func init() { props["C12"] = runC12 }

// norm: normal form of any Go value reachable from the wire types
func norm(v reflect.Value) interface{} {
	if !v.IsValid() {
		return nil
	}
	switch v.Kind() {
	case reflect.Interface:
		if v.IsNil() {
			return nil
		}
		return norm(v.Elem())
	case reflect.Ptr:
		if v.IsNil() {
			return nil
		}
		return map[string]interface{}{"&": norm(v.Elem())}
	case reflect.Bool:
		return v.Bool()
	case reflect.String:
		return v.String()
	case reflect.Int, reflect.Int8, reflect.Int16, reflect.Int32, reflect.Int64:
		return float64(v.Int())
	case reflect.Uint, reflect.Uint8, reflect.Uint16, reflect.Uint32, reflect.Uint64:
		return float64(v.Uint())
	case reflect.Float32, reflect.Float64:
		return v.Float()
	case reflect.Slice, reflect.Array:
		out := []interface{}{}
		for i := 0; i < v.Len(); i++ {
			out = append(out, norm(v.Index(i)))
		}
		return out
	case reflect.Map:
		type kv struct {
			k string
			p []interface{}
		}
		var kvs []kv
		it := v.MapRange()
		for it.Next() {
			k := norm(it.Key())
			b, _ := json.Marshal(k)
			kvs = append(kvs, kv{string(b), []interface{}{k, norm(it.Value())}})
		}
		sort.Slice(kvs, func(i, j int) bool { return kvs[i].k < kvs[j].k })
		out := []interface{}{}
		for _, e := range kvs {
			out = append(out, e.p)
		}
		return map[string]interface{}{"map": out}
	case reflect.Struct:
		if v.Type() == reflect.TypeOf(ovsdb.OvsSet{}) {
			s := v.Field(0)
			if s.Len() == 1 {
				return norm(s.Index(0))
			}
			return map[string]interface{}{"set": norm(s)}
		}
		out := map[string]interface{}{}
		for i := 0; i < v.NumField(); i++ {
			out[v.Type().Field(i).Name] = norm(v.Field(i))
		}
		return map[string]interface{}{v.Type().Name(): out}
	}
	return fmt.Sprintf("<%s>", v.Kind())
}

func normJSON(x interface{}) string {
	b, _ := json.Marshal(norm(reflect.ValueOf(x)))
	return string(b)
}

// canonText: JSON text with object keys sorted and OVSDB maps' pairs sorted
func canonText(b []byte) string {
	var t interface{}
	if err := json.Unmarshal(b, &t); err != nil {
		return "!" + string(b)
	}
	var walk func(x interface{}) interface{}
	walk = func(x interface{}) interface{} {
		switch a := x.(type) {
		case []interface{}:
			out := make([]interface{}, len(a))
			for i, e := range a {
				out[i] = walk(e)
			}
			if len(out) == 2 && out[0] == "map" {
				if ps, ok := out[1].([]interface{}); ok {
					ss := append([]interface{}{}, ps...)
					sort.Slice(ss, func(i, j int) bool {
						x, _ := json.Marshal(ss[i])
						y, _ := json.Marshal(ss[j])
						return string(x) < string(y)
					})
					out[1] = ss
				}
			}
			return out
		case map[string]interface{}:
			out := map[string]interface{}{}
			for k, e := range a {
				out[k] = walk(e)
			}
			return out
		}
		return x
	}
	o, _ := json.Marshal(walk(t))
	return string(o)
}

// roundTrip encodes v, decodes into a fresh value of the same type, encodes again
func roundTrip(v interface{}) (e1 []byte, d interface{}, e2 []byte, err error) {
	defer func() {
		if p := recover(); p != nil {
			err = fmt.Errorf("panic: %v", p)
		}
	}()
	e1, err = json.Marshal(v)
	if err != nil {
		return nil, nil, nil, fmt.Errorf("encode: %v", err)
	}
	t := reflect.New(reflect.TypeOf(v))
	if err = json.Unmarshal(e1, t.Interface()); err != nil {
		return e1, nil, nil, fmt.Errorf("decode of own encoding %s: %v", e1, err)
	}
	d = t.Elem().Interface()
	e2, err = json.Marshal(d)
	if err != nil {
		return e1, d, nil, fmt.Errorf("re-encode: %v", err)
	}
	return e1, d, e2, nil
}

var c12ValueKinds = []string{"set", "map", "uuid", "value", "row", "condition", "mutation", "operation", "result", "updates", "updates2", "monitorreq", "select", "condsince"}

func runC12(r *Run) {
	r.Rule = "values of every wire type generated structurally (optional members present/absent, empty/singleton/multi collections, sets of uuids inside maps, every condition function and mutator, schemas with every base-type constraint, min/max/unlimited, ephemeral, mutable, isRoot, indexes) encoded with the library, decoded, encoded again; non-trivial = value with at least one optional member set or a non-empty collection; distinct by (type, encoding)"
	n := 6000
	if r.Tier == "thorough" {
		n = 100000
	}
	for i := 0; i < n; i++ {
		kind := c12ValueKinds[i%len(c12ValueKinds)]
		v := validWireValue(r, kind)
		if p, ok := v.(*ovsdb.MonitorSelect); ok {
			v = *p
		}
		if p, ok := v.(*ovsdb.Mutation); ok {
			v = *p
		}
		c12Check(r, kind, v, "")
		c12EncodeCorrespond(r, kind, v)
		if recodedWire[kind] {
			if e, err := json.Marshal(v); err == nil {
				recodeCorrespond(r, "recode-model", kind, e)
			}
		}
	}
	c12NestedMaps(r, n/20)
	c12Schemas(r, n/3)
	c12Errors(r)
	c12BigInts(r)
	c12BigReals(r)
	c12Strings(r)
}

// c12Strings: strings that need escaping on the wire (control characters, quotes, characters outside the basic
// plane, what an HTML-safe encoder rewrites), alone in a set (written as the bare element), among others, as
// key and value of a map, in a row, a condition, a mutation and an operation: the round-trip oracle only
func c12Strings(r *Run) {
	for _, s := range c09Strings {
		one, _ := ovsdb.NewOvsSet([]string{s})
		two, _ := ovsdb.NewOvsSet([]string{s, "a"})
		m, _ := ovsdb.NewOvsMap(map[string]string{s: s})
		c12Check(r, "set", one, "")
		c12Check(r, "set", two, "")
		c12Check(r, "map", m, "")
		c12Check(r, "row", ovsdb.Row{"c": s, "s": one, "m": m}, "")
		c12Check(r, "condition", ovsdb.NewCondition("c", ovsdb.ConditionEqual, one), "")
		c12Check(r, "condition", ovsdb.NewCondition("c", ovsdb.ConditionIncludes, s), "")
		c12Check(r, "mutation", *ovsdb.NewMutation("c", ovsdb.MutateOperationInsert, one), "")
		c12Check(r, "operation", ovsdb.Operation{Op: "insert", Table: "T", Row: ovsdb.Row{"c": s, "s": one}, UUIDName: "n"}, "")
	}
}

// c12NestedMaps: maps whose values are sets (of uuids or strings; empty or with two and more elements: a
// one-element set is encoded as its element), alone and inside a row, a condition and a mutation. The
// library encodes and decodes them although RFC 7047 pairs hold atoms; they are outside the Lean codec
// model and checked against the round-trip oracle only.
func c12NestedMaps(r *Run, n int) {
	rng := r.Rng
	for i := 0; i < n; i++ {
		m := ovsdb.OvsMap{GoMap: map[interface{}]interface{}{}}
		for k := 1 + rng.Intn(3); k > 0; k-- {
			var elems []interface{}
			cnt := []int{0, 2, 3}[rng.Intn(3)]
			for e := 0; e < cnt; e++ {
				if i%2 == 0 {
					elems = append(elems, ovsdb.UUID{GoUUID: mkUUID(1000 + 10*k + e)})
				} else {
					elems = append(elems, fmt.Sprintf("s%d", 10*k+e))
				}
			}
			var key interface{} = fmt.Sprintf("k%d", k)
			if rng.Intn(3) == 0 {
				key = ovsdb.UUID{GoUUID: mkUUID(2000 + k)}
			}
			m.GoMap[key] = ovsdb.OvsSet{GoSet: elems}
		}
		switch i % 4 {
		case 0:
			c12Check(r, "map", m, "")
		case 1:
			c12Check(r, "row", ovsdb.Row{"c": m, "n": 1}, "")
		case 2:
			c12Check(r, "condition", ovsdb.NewCondition("c", ovsdb.ConditionIncludes, m), "")
		default:
			c12Check(r, "mutation", *ovsdb.NewMutation("c", ovsdb.MutateOperationInsert, m), "")
		}
		r.Count("nested-map")
	}
}

func c12Check(r *Run, kind string, v interface{}, known string) {
	e1, d, e2, err := roundTrip(v)
	key := ""
	if len(e1) > 12 {
		key = kind + string(e1)
	}
	r.Case("roundtrip:"+kind, key)
	cs := map[string]interface{}{"type": kind, "value": normJSON(v), "text": string(e1)}
	if err != nil {
		r.Violation("roundtrip:"+kind, cs, err.Error(), "decodes", true, "a "+kind+" does not survive its own encoding", known)
		return
	}
	if a, b := normJSON(v), normJSON(d); a != b {
		r.Violation("roundtrip:"+kind, cs, b, a, true, "decode(encode(v)) differs from v for a "+kind, known)
		return
	}
	if a, b := canonText(e1), canonText(e2); a != b {
		r.Violation("roundtrip:"+kind, cs, b, a, true, "encoding the decoded "+kind+" gives different JSON", known)
	}
}

// ---- schemas: decoded value vs the JSON it came from, and decode(encode(schema)) = schema

func c12Schemas(r *Run, n int) {
	for i := 0; i < n; i++ {
		kind := []string{"basetype", "columntype", "columnschema", "schema"}[i%4]
		text := validSchemaWire(r, kind)
		var src interface{}
		sdec := json.NewDecoder(bytes.NewReader(text))
		sdec.UseNumber() // integer bounds are compared digit by digit
		_ = sdec.Decode(&src)
		cs := map[string]interface{}{"type": kind, "text": string(text)}
		key := ""
		if len(text) > 12 {
			key = kind + string(text)
		}
		r.Case("schema:"+kind, key)
		recodeCorrespond(r, "recode-model", kind, text)
		t := wireTargets[kind]()
		if err := json.Unmarshal(text, t); err != nil {
			r.Violation("schema:"+kind, cs, err.Error(), "decodes", true, "a valid "+kind+" is rejected", "")
			continue
		}
		d0 := reflect.ValueOf(t).Elem().Interface()
		// accessor facts vs source
		if why := schemaFacts(kind, src, t); why != "" {
			r.Violation("schema:"+kind, cs, why, "members as written in the JSON", true, "decoded "+kind+" does not carry the members of the JSON it was decoded from", "")
			continue
		}
		e1, d1, e2, err := roundTrip(d0)
		if err != nil {
			r.Violation("schema:"+kind, cs, err.Error(), "", true, "a decoded "+kind+" does not survive re-encoding", "")
			continue
		}
		if a, b := normJSON(d0), normJSON(d1); a != b {
			r.Violation("schema:"+kind, cs, b, a, true, "decode(encode(s)) differs from s for a "+kind, "")
			continue
		}
		if a, b := canonText(e1), canonText(e2); a != b {
			r.Violation("schema:"+kind, cs, b, a, true, "encoding twice gives different JSON for a "+kind, "")
			continue
		}
		// the re-encoding must still say what the source said (compare through a second decode's facts)
		var src1 interface{}
		_ = json.Unmarshal(e1, &src1)
		t1 := wireTargets[kind]()
		_ = json.Unmarshal(e1, t1)
		if why := schemaFacts(kind, src, t1); why != "" {
			r.Violation("schema:"+kind, cs, why+" after re-encoding as "+string(e1), "", true, "re-encoding a decoded "+kind+" loses or changes a member", "")
		}
	}
}

func jsonNum(x interface{}) (float64, bool) {
	if n, ok := x.(json.Number); ok {
		f, err := n.Float64()
		return f, err == nil
	}
	f, ok := x.(float64)
	return f, ok
}

// baseFacts compares a decoded BaseType with its source JSON
func baseFacts(src interface{}, b *ovsdb.BaseType) string {
	if b == nil {
		return "base type missing"
	}
	if s, ok := src.(string); ok {
		if b.Type != s {
			return fmt.Sprintf("type %s != %s", b.Type, s)
		}
		return ""
	}
	m := src.(map[string]interface{})
	if b.Type != m["type"] {
		return fmt.Sprintf("type %s != %v", b.Type, m["type"])
	}
	chkInt := func(name string, get func() (int, error)) string {
		w, ok := jsonNum(m[name])
		if !ok {
			return ""
		}
		g, err := get()
		if err != nil || float64(g) != w {
			return fmt.Sprintf("%s: decoded %v (err %v), JSON says %v", name, g, err, w)
		}
		if n, isNum := m[name].(json.Number); isNum && !strings.ContainsAny(string(n), ".eE") && fmt.Sprint(g) != string(n) {
			return fmt.Sprintf("%s: decoded %d, JSON says %s", name, g, n)
		}
		return ""
	}
	for _, c := range []struct {
		n string
		f func() (int, error)
	}{{"minInteger", b.MinInteger}, {"maxInteger", b.MaxInteger}, {"minLength", b.MinLength}, {"maxLength", b.MaxLength}} {
		if s := chkInt(c.n, c.f); s != "" {
			return s
		}
	}
	for _, c := range []struct {
		n string
		f func() (float64, error)
	}{{"minReal", b.MinReal}, {"maxReal", b.MaxReal}} {
		if w, ok := jsonNum(m[c.n]); ok {
			g, err := c.f()
			if err != nil || g != w {
				return fmt.Sprintf("%s: decoded %v (err %v), JSON says %v", c.n, g, err, w)
			}
		}
	}
	if w, ok := m["refTable"].(string); ok {
		g, err := b.RefTable()
		if err != nil || g != w {
			return fmt.Sprintf("refTable: decoded %q, JSON says %q", g, w)
		}
		want := "strong"
		if s, ok := m["refType"].(string); ok {
			want = s
		}
		gt, err := b.RefType()
		if err != nil || string(gt) != want {
			return fmt.Sprintf("refType: decoded %q, JSON says %q", gt, want)
		}
	}
	if e, ok := m["enum"]; ok {
		var want []interface{}
		if a, ok := e.([]interface{}); ok && len(a) == 2 && a[0] == "set" {
			want = a[1].([]interface{})
		} else {
			want = []interface{}{e}
		}
		x, _ := json.Marshal(want)
		y, _ := json.Marshal(b.Enum)
		if string(x) != string(y) {
			return fmt.Sprintf("enum: decoded %s, JSON says %s", y, x)
		}
	} else if len(b.Enum) != 0 {
		return "enum appeared"
	}
	return ""
}

func colTypeFacts(src interface{}, c *ovsdb.ColumnType) string {
	if c == nil {
		return "column type missing"
	}
	if s, ok := src.(string); ok {
		if c.Key == nil || c.Key.Type != s || c.Value != nil || c.Min() != 1 || c.Max() != 1 {
			return "atomic column type " + s + " decoded differently"
		}
		return ""
	}
	m := src.(map[string]interface{})
	if s := baseFacts(m["key"], c.Key); s != "" {
		return "key: " + s
	}
	if v, ok := m["value"]; ok {
		if s := baseFacts(v, c.Value); s != "" {
			return "value: " + s
		}
	} else if c.Value != nil {
		return "value appeared"
	}
	wmin, wmax := 1.0, 1.0
	if f, ok := jsonNum(m["min"]); ok {
		wmin = f
	}
	if f, ok := jsonNum(m["max"]); ok {
		wmax = f
	}
	if m["max"] == "unlimited" {
		wmax = -1
	}
	if float64(c.Min()) != wmin || float64(c.Max()) != wmax {
		return fmt.Sprintf("min/max: decoded %d/%d, JSON says %v/%v", c.Min(), c.Max(), wmin, wmax)
	}
	return ""
}

func colFacts(src interface{}, c *ovsdb.ColumnSchema) string {
	m := src.(map[string]interface{})
	if s := colTypeFacts(m["type"], c.TypeObj); s != "" {
		return s
	}
	we, wm := false, true
	if b, ok := m["ephemeral"].(bool); ok {
		we = b
	}
	if b, ok := m["mutable"].(bool); ok {
		wm = b
	}
	if c.Ephemeral() != we || c.Mutable() != wm {
		return fmt.Sprintf("ephemeral/mutable: decoded %v/%v, JSON says %v/%v", c.Ephemeral(), c.Mutable(), we, wm)
	}
	return ""
}

func schemaFacts(kind string, src interface{}, t interface{}) string {
	switch kind {
	case "basetype":
		return baseFacts(src, t.(*ovsdb.BaseType))
	case "columntype":
		return colTypeFacts(src, t.(*ovsdb.ColumnType))
	case "columnschema":
		return colFacts(src, t.(*ovsdb.ColumnSchema))
	}
	db := t.(*ovsdb.DatabaseSchema)
	m := src.(map[string]interface{})
	if db.Name != m["name"] || db.Version != m["version"] {
		return "name/version"
	}
	tables := m["tables"].(map[string]interface{})
	if len(tables) != len(db.Tables) {
		return "number of tables"
	}
	for tn, tj := range tables {
		tm := tj.(map[string]interface{})
		ts, ok := db.Tables[tn]
		if !ok {
			return "table " + tn + " missing"
		}
		wroot, _ := tm["isRoot"].(bool)
		if ts.IsRoot != wroot {
			return "isRoot of " + tn
		}
		x, _ := json.Marshal(tm["indexes"])
		y, _ := json.Marshal(ts.Indexes)
		if string(x) != string(y) && !(tm["indexes"] == nil && len(ts.Indexes) == 0) {
			return fmt.Sprintf("indexes of %s: decoded %s, JSON says %s", tn, y, x)
		}
		cols := tm["columns"].(map[string]interface{})
		if len(cols) != len(ts.Columns) {
			return "number of columns of " + tn
		}
		for cn, cj := range cols {
			c := ts.Columns[cn]
			if c == nil {
				return "column " + cn + " missing"
			}
			if s := colFacts(cj, c); s != "" {
				return tn + "." + cn + ": " + s
			}
		}
	}
	return ""
}

// ---- error <-> result mapping

func c12Errors(r *Run) {
	names := []string{"referential integrity violation", "constraint violation", "resources exhausted", "I/O error", "duplicate uuid name",
		"domain error", "range error", "timed out", "not supported", "aborted", "not owner", "syntax error", "unknown database", "some future error"}
	op := ovsdb.Operation{Op: "insert", Table: "T"}
	for _, n := range names {
		for _, det := range []string{"", "details of the failure"} {
			res := ovsdb.OperationResult{Error: n, Details: det}
			r.Case("error-mapping", n+"|"+det)
			cs := map[string]interface{}{"error": n, "details": det}
			errs, err := ovsdb.CheckOperationResults([]ovsdb.OperationResult{res}, []ovsdb.Operation{op})
			if err == nil || len(errs) != 1 {
				r.Violation("error-mapping", cs, fmt.Sprintf("%d errors, err=%v", len(errs), err), "one operation error", true, "an error result is not reported as an operation error", "")
				continue
			}
			back := ovsdb.ResultFromError(errs[0])
			if back.Error != n || back.Details != det {
				r.Violation("error-mapping", cs, fmt.Sprintf("error=%q details=%q", back.Error, back.Details), fmt.Sprintf("error=%q details=%q", n, det), true,
					"result -> error -> result does not give the result back", "")
			}
			// and through JSON
			c12Check(r, "result", res, "")
		}
	}
}

// ---- integers beyond 2^53: a 64-bit integer survives decoding and re-encoding exactly, wherever it stands
// (defect D5, repaired: the decoders went through float64)

func c12BigInts(r *Run) {
	asInt := func(v interface{}) (int, bool) {
		switch t := v.(type) {
		case float64:
			return int(t), float64(int(t)) == t
		case int:
			return t, true
		}
		return 0, false
	}
	for _, k := range []int{1<<53 + 1, -(1<<53 + 1), 1<<62 + 12345, 9007199254740993, math.MaxInt64, math.MinInt64 + 1, math.MinInt64, 1 << 53, 1<<53 - 1, 42} {
		cs := map[string]interface{}{"integer": fmt.Sprint(k)}
		r.Case("bigint", fmt.Sprint(k))
		bad := func(where, got string) {
			cs["where"] = where
			r.Violation("bigint", cs, got, fmt.Sprint(k), true, "a 64-bit integer does not survive decoding and re-encoding ("+where+")", "integer-above-2^53")
		}
		// in a row
		e1, _ := json.Marshal(ovsdb.Row{"n": k})
		var d ovsdb.Row
		_ = json.Unmarshal(e1, &d)
		e2, _ := json.Marshal(d)
		if back, ok := asInt(d["n"]); !ok || back != k || !strings.Contains(string(e2), fmt.Sprint(k)) {
			bad("row", fmt.Sprintf("decoded %v, re-encoded %s", d["n"], e2))
			continue
		}
		// in a set, as a map key and value, in a condition, in a mutation
		set, _ := ovsdb.NewOvsSet([]int{k, 7})
		es, _ := json.Marshal(set)
		var ds ovsdb.OvsSet
		_ = json.Unmarshal(es, &ds)
		if len(ds.GoSet) != 2 {
			bad("set", fmt.Sprint(ds.GoSet))
			continue
		}
		if back, ok := asInt(ds.GoSet[0]); !ok || back != k {
			bad("set", fmt.Sprint(ds.GoSet))
			continue
		}
		om, _ := ovsdb.NewOvsMap(map[int]int{k: k})
		em, _ := json.Marshal(om)
		var dm ovsdb.OvsMap
		_ = json.Unmarshal(em, &dm)
		okm := len(dm.GoMap) == 1
		for kk, vv := range dm.GoMap {
			a, oa := asInt(kk)
			b, ob := asInt(vv)
			okm = okm && oa && ob && a == k && b == k
		}
		if !okm {
			bad("map", fmt.Sprint(dm.GoMap))
			continue
		}
		ec, _ := json.Marshal(ovsdb.NewCondition("n", ovsdb.ConditionEqual, k))
		var dc ovsdb.Condition
		_ = json.Unmarshal(ec, &dc)
		if back, ok := asInt(dc.Value); !ok || back != k {
			bad("condition", fmt.Sprint(dc.Value))
			continue
		}
		emu, _ := json.Marshal(ovsdb.NewMutation("n", ovsdb.MutateOperationAdd, k))
		var dmu ovsdb.Mutation
		_ = json.Unmarshal(emu, &dmu)
		if back, ok := asInt(dmu.Value); !ok || back != k {
			bad("mutation", fmt.Sprint(dmu.Value))
			continue
		}
		// and into the native value of an integer column
		var col ovsdb.ColumnSchema
		_ = json.Unmarshal([]byte(`{"type":"integer"}`), &col)
		if nv, err := ovsdb.OvsToNative(&col, d["n"]); err != nil || nv != k {
			bad("native", fmt.Sprint(nv, err))
		}
	}
}

// c12BigReals: a real whose value is a whole number beyond 2^53 is written by the encoder as a digit string
// that the exact decoder reads as an integer: at the level of untyped values it comes back as an int of the
// same value, and every typed conversion (real column, set of reals, map with real keys or values) has to turn
// it back into the float64 it was
func c12BigReals(r *Run) {
	for _, f := range []float64{1 << 62, 1.2e18, -(1 << 60), 9007199254740994, 1 << 53, 1e19, 1.5e17 + 0.0} {
		cs := map[string]interface{}{"real": fmt.Sprint(f)}
		r.Case("bigreal", fmt.Sprint(f))
		bad := func(where, got string) {
			cs["where"] = where
			r.Violation("bigreal", cs, got, fmt.Sprint(f), true, "a real with a whole value beyond 2^53 does not survive encoding, decoding and conversion to its native type ("+where+")", "")
		}
		for _, tc := range []struct {
			where, schema string
			value         interface{}
			want          interface{}
		}{
			{"real column", `{"type":"real"}`, f, f},
			{"set of reals", `{"type":{"key":"real","min":0,"max":"unlimited"}}`, ovsdb.OvsSet{GoSet: []interface{}{f, 0.5}}, []float64{f, 0.5}},
			{"optional real", `{"type":{"key":"real","min":0,"max":1}}`, ovsdb.OvsSet{GoSet: []interface{}{f}}, &f},
			{"map real->real", `{"type":{"key":"real","value":"real","min":0,"max":"unlimited"}}`, ovsdb.OvsMap{GoMap: map[interface{}]interface{}{f: f}}, map[float64]float64{f: f}},
		} {
			var col ovsdb.ColumnSchema
			if err := json.Unmarshal([]byte(tc.schema), &col); err != nil {
				bad(tc.where, err.Error())
				continue
			}
			enc, _ := json.Marshal(ovsdb.Row{"c": tc.value})
			var d ovsdb.Row
			if err := json.Unmarshal(enc, &d); err != nil {
				bad(tc.where, err.Error())
				continue
			}
			nv, err := ovsdb.OvsToNative(&col, d["c"])
			if err != nil || !reflect.DeepEqual(nv, tc.want) {
				bad(tc.where, fmt.Sprintf("%s -> %#v -> %#v (%v)", enc, d["c"], nv, err))
			}
		}
	}
}

// ---- correspondence with the Lean model of the encoders and schema codecs

func rowModelJ(row ovsdb.Row) map[string]interface{} {
	out := map[string]interface{}{}
	for k, v := range row {
		out[k] = fromOvs(v)
	}
	return out
}

func opModelJ(op ovsdb.Operation) map[string]interface{} {
	m := map[string]interface{}{"op": op.Op, "table": op.Table, "until": op.Until, "uuid": op.UUID, "uuid-name": op.UUIDName, "columns": op.Columns}
	if op.Row != nil {
		m["row"] = rowModelJ(op.Row)
	}
	rows := []interface{}{}
	for _, r := range op.Rows {
		rows = append(rows, rowModelJ(r))
	}
	m["rows"] = rows
	muts := []interface{}{}
	for _, x := range op.Mutations {
		muts = append(muts, []interface{}{x.Column, string(x.Mutator), fromOvs(x.Value)})
	}
	m["mutations"] = muts
	wh := []interface{}{}
	for _, x := range op.Where {
		wh = append(wh, []interface{}{x.Column, string(x.Function), fromOvs(x.Value)})
	}
	m["where"] = wh
	if op.Timeout != nil {
		m["timeout"] = *op.Timeout
	}
	if op.Durable != nil {
		m["durable"] = *op.Durable
	}
	if op.Comment != nil {
		m["comment"] = *op.Comment
	}
	if op.Lock != nil {
		m["lock"] = *op.Lock
	}
	return m
}

// c12EncodeCorrespond: the model's encoder and the library's produce the same JSON
func c12EncodeCorrespond(r *Run, kind string, v interface{}) {
	var mj interface{}
	switch t := v.(type) {
	case ovsdb.Condition:
		mj = []interface{}{t.Column, string(t.Function), fromOvs(t.Value)}
	case ovsdb.Mutation:
		mj = []interface{}{t.Column, string(t.Mutator), fromOvs(t.Value)}
	case ovsdb.Row:
		mj = rowModelJ(t)
	case ovsdb.Operation:
		mj = opModelJ(t)
	default:
		if kind != "value" {
			return
		}
		mj = fromOvs(v)
	}
	e1, err := json.Marshal(v)
	if err != nil {
		return
	}
	cs := map[string]interface{}{"type": kind, "text": string(e1)}
	var out json.RawMessage
	if err := r.Mdl.Call(map[string]interface{}{"fn": "encodeWire", "kind": kind, "v": mj}, &out); err != nil {
		r.Violation("encode-model", cs, string(e1), err.Error(), false, "model driver failed", "")
		return
	}
	r.Case("encode-model:"+kind, "")
	if a, b := canonText(e1), canonText(out); a != b {
		r.Violation("encode-model", cs, a, b, false, "encoding of a "+kind+" differs between implementation and model", "")
	}
}

func renderOp(op ovsdb.Operation) interface{} {
	rowJ := func(row ovsdb.Row) interface{} {
		o := map[string]interface{}{}
		for k, e := range row {
			o[k] = goValJ(e)
		}
		return o
	}
	rows := []interface{}{}
	for _, x := range op.Rows {
		rows = append(rows, rowJ(x))
	}
	muts := []interface{}{}
	for _, x := range op.Mutations {
		muts = append(muts, []interface{}{x.Column, string(x.Mutator), goValJ(x.Value)})
	}
	wh := []interface{}{}
	for _, x := range op.Where {
		wh = append(wh, []interface{}{x.Column, string(x.Function), goValJ(x.Value)})
	}
	cols := []interface{}{}
	for _, c := range op.Columns {
		cols = append(cols, c)
	}
	m := map[string]interface{}{"op": op.Op, "table": op.Table, "row": rowJ(op.Row), "rows": rows, "columns": cols, "mutations": muts, "where": wh,
		"until": op.Until, "uuid": op.UUID, "uuid-name": op.UUIDName, "timeout": nil, "durable": nil, "comment": nil, "lock": nil}
	if op.Timeout != nil {
		m["timeout"] = *op.Timeout
	}
	if op.Durable != nil {
		m["durable"] = *op.Durable
	}
	if op.Comment != nil {
		m["comment"] = *op.Comment
	}
	if op.Lock != nil {
		m["lock"] = *op.Lock
	}
	return m
}

func canonModelOp(x interface{}) interface{} {
	m, ok := x.(map[string]interface{})
	if !ok {
		return x
	}
	row := func(r interface{}) interface{} {
		o := map[string]interface{}{}
		if rm, ok := r.(map[string]interface{}); ok {
			for k, e := range rm {
				o[k] = canonModelVal(e)
			}
		}
		return o
	}
	triples := func(l interface{}) interface{} {
		out := []interface{}{}
		if a, ok := l.([]interface{}); ok {
			for _, t := range a {
				tt := t.([]interface{})
				out = append(out, []interface{}{tt[0], tt[1], canonModelVal(tt[2])})
			}
		}
		return out
	}
	out := map[string]interface{}{}
	for k, v := range m {
		out[k] = v
	}
	out["row"] = row(m["row"])
	rows := []interface{}{}
	if a, ok := m["rows"].([]interface{}); ok {
		for _, r := range a {
			rows = append(rows, row(r))
		}
	}
	out["rows"] = rows
	out["mutations"] = triples(m["mutations"])
	out["where"] = triples(m["where"])
	return out
}

// recodeCorrespond: model and implementation agree on whether text decodes as
// kind and, when it does, on what the decoded value encodes to (schema types,
// monitor select) or is (operation)
func recodeCorrespond(r *Run, stream, kind string, text []byte) {
	cs := map[string]interface{}{"type": kind, "text": string(text)}
	out, val := decodeOutcome(kind, text)
	if strings.HasPrefix(out, "panic") {
		return // reported by the caller's no-panic check
	}
	var mo struct {
		Class     string          `json:"class"`
		Reencoded json.RawMessage `json:"reencoded"`
		Val       Exact           `json:"val"`
	}
	if err := r.Mdl.Call(map[string]interface{}{"fn": "recodeWire", "kind": kind, "json": json.RawMessage(text)}, &mo); err != nil {
		r.Violation(stream, cs, out, err.Error(), false, "model driver failed", "")
		return
	}
	r.Case(stream+":"+kind, "")
	if mo.Class != out {
		if out == "err" && mo.Class == "ok" && hasIntBeyond64(text) {
			r.Count(stream + ":integer-beyond-64-bits") // see c19Correspond
			return
		}
		r.Violation(stream, cs, out, mo.Class, false, "outcome class of decoding a "+kind+" differs between implementation and model", "")
		return
	}
	if out != "ok" {
		return
	}
	if kind == "operation" {
		a, _ := json.Marshal(renderOp(val.(ovsdb.Operation)))
		b, _ := json.Marshal(canonModelOp(mo.Val.V))
		if string(a) != string(b) {
			r.Violation(stream, cs, string(a), string(b), false, "decoded operation differs between implementation and model", "")
		}
		return
	}
	if iv, ok := renderDecoded(kind, val); ok {
		a, _ := json.Marshal(dropNulls(iv, true))
		b, _ := json.Marshal(dropNulls(canonModelDeep(mo.Val.V), true))
		if string(a) != string(b) {
			r.Violation(stream, cs, string(a), string(b), false, "decoded "+kind+" differs between implementation and model", "")
		}
		return
	}
	e, err := json.Marshal(val)
	if err != nil {
		r.Violation(stream, cs, err.Error(), string(mo.Reencoded), false, "implementation cannot encode what it decoded", "")
		return
	}
	a, b := canonText(e), canonText(mo.Reencoded)
	if kind == "schema" {
		// a nil map of the implementation is encoded as null, the model's empty association list as {}
		a, b = canonNullText(a), canonNullText(b)
	}
	if a != b {
		r.Violation(stream, cs, a, b, false, "re-encoding of a decoded "+kind+" differs between implementation and model", "")
	}
}

// renderDecoded: decoded values of the struct-typed wire kinds in the form the model driver prints them
func renderDecoded(kind string, val interface{}) (interface{}, bool) {
	rowJ := func(row *ovsdb.Row) interface{} {
		if row == nil {
			return nil
		}
		o := map[string]interface{}{}
		for k, e := range *row {
			o[k] = goValJ(e)
		}
		return o
	}
	ru2 := func(u *ovsdb.RowUpdate2) interface{} {
		if u == nil {
			return nil
		}
		return map[string]interface{}{"initial": rowJ(u.Initial), "insert": rowJ(u.Insert), "modify": rowJ(u.Modify), "delete": rowJ(u.Delete)}
	}
	tu2 := func(t ovsdb.TableUpdates2) interface{} {
		out := map[string]interface{}{}
		for tn, rows := range t {
			m := map[string]interface{}{}
			for u, x := range rows {
				m[u] = ru2(x)
			}
			out[tn] = m
		}
		return out
	}
	switch t := val.(type) {
	case ovsdb.OperationResult:
		rows := []interface{}{}
		for i := range t.Rows {
			rows = append(rows, rowJ(&t.Rows[i]))
		}
		return map[string]interface{}{"count": t.Count, "error": t.Error, "details": t.Details, "uuid": t.UUID.GoUUID, "rows": rows}, true
	case ovsdb.TableUpdates:
		out := map[string]interface{}{}
		for tn, rows := range t {
			m := map[string]interface{}{}
			for u, x := range rows {
				if x == nil {
					m[u] = nil
					continue
				}
				m[u] = map[string]interface{}{"new": rowJ(x.New), "old": rowJ(x.Old)}
			}
			out[tn] = m
		}
		return out, true
	case ovsdb.TableUpdates2:
		return tu2(t), true
	case ovsdb.MonitorCondSinceReply:
		return []interface{}{t.Found, t.LastTransactionID, tu2(t.Updates)}, true
	case ovsdb.MonitorRequest:
		cols := []interface{}{}
		for _, c := range t.Columns {
			cols = append(cols, c)
		}
		wh := []interface{}{}
		for _, x := range t.Where {
			wh = append(wh, []interface{}{x.Column, string(x.Function), goValJ(x.Value)})
		}
		var sel interface{}
		if t.Select != nil {
			b, _ := json.Marshal(t.Select)
			var m map[string]interface{}
			_ = json.Unmarshal(b, &m)
			sel = map[string]interface{}{"initial": m["initial"], "insert": m["insert"], "delete": m["delete"], "modify": m["modify"]}
		}
		return map[string]interface{}{"columns": cols, "where": wh, "select": sel}, true
	}
	return nil, false
}

// canonModelDeep applies canonModelVal wherever a decoded value sits inside the model's output
func canonModelDeep(x interface{}) interface{} {
	switch t := x.(type) {
	case map[string]interface{}:
		if len(t) == 1 {
			for k := range t {
				if k == "raw" || k == "uuid" || k == "set" || k == "map" {
					return canonModelVal(x)
				}
			}
		}
		out := map[string]interface{}{}
		for k, v := range t {
			out[k] = canonModelDeep(v)
		}
		return out
	case []interface{}:
		out := make([]interface{}, len(t))
		for i, v := range t {
			out[i] = canonModelDeep(v)
		}
		return out
	}
	return x
}

// dropNulls removes null members of objects (a nil pointer in a Go map / an absent optional member) and, when
// emptyToo is set, null elements that stand for absent row updates
func dropNulls(x interface{}, top bool) interface{} {
	switch t := x.(type) {
	case map[string]interface{}:
		if len(t) == 1 {
			if _, raw := t["raw"]; raw {
				return x // a decoded JSON atom: null is a value there
			}
		}
		out := map[string]interface{}{}
		for k, v := range t {
			if v == nil {
				continue
			}
			out[k] = dropNulls(v, false)
		}
		return out
	case []interface{}:
		out := make([]interface{}, len(t))
		for i, v := range t {
			out[i] = dropNulls(v, false)
		}
		return out
	}
	return x
}

// canonNullText: JSON text with null members dropped and null / {} maps identified
func canonNullText(s string) string {
	var t interface{}
	if err := json.Unmarshal([]byte(s), &t); err != nil {
		return s
	}
	var walk func(x interface{}) interface{}
	walk = func(x interface{}) interface{} {
		switch a := x.(type) {
		case map[string]interface{}:
			out := map[string]interface{}{}
			for k, v := range a {
				w := walk(v)
				if w == nil {
					continue
				}
				if m, ok := w.(map[string]interface{}); ok && len(m) == 0 && (k == "columns" || k == "tables") {
					continue
				}
				if arr, ok := w.([]interface{}); ok && k == "indexes" { // a nil []string is encoded as null, the model's [] as []
					for i := range arr {
						if arr[i] == nil {
							arr[i] = []interface{}{}
						}
					}
				}
				out[k] = w
			}
			return out
		case []interface{}:
			out := make([]interface{}, len(a))
			for i, v := range a {
				out[i] = walk(v)
			}
			return out
		}
		return x
	}
	o, _ := json.Marshal(walk(t))
	return string(o)
}
