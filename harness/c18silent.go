package main

// C18: a peer that stops answering (the connection stays open, nothing comes back). Every call of the client
// that takes a context returns once that context is done: a caller that set a deadline gets its goroutine back
// even though no answer will ever come, and the client can still be closed afterwards.

import (
	"context"
	"fmt"
	"time"

	"github.com/ovn-org/libovsdb/client"
)

func c18SilentPeer(r *Run, h int) {
	rng := r.Rng
	ts := c18Schema()
	rig, err := newRig(ts)
	if err != nil {
		return
	}
	defer rig.Close()
	px, err := newProxy(rig.sock)
	if err != nil {
		return
	}
	defer px.Close()
	ctx, cancel := ctxT(60 * time.Second)
	defer cancel()
	a, adb, err := rig.newClient(px.endpoint())
	if err != nil || a.Connect(ctx) != nil {
		return
	}
	cookie, err := a.Monitor(ctx, a.NewMonitor(client.WithTable(adb.NewModel("Pair", "", nil))))
	if err != nil {
		a.Close()
		return
	}
	dl := time.Duration(30+rng.Intn(120)) * time.Millisecond
	calls := []string{"echo", "transact", "monitor", "monitor-cancel"}
	rng.Shuffle(len(calls), func(i, j int) { calls[i], calls[j] = calls[j], calls[i] })
	calls = calls[:1+rng.Intn(len(calls))]
	cs := map[string]interface{}{"run": h, "deadline_ms": dl.Milliseconds(), "calls": calls}
	r.Case("silent-peer", fmt.Sprint(h, dl, calls))
	px.stall(true)
	stuck := func(what string) {
		r.Violation("silent-peer", cs, what, "returns", true,
			"the peer stopped answering (connection open); a call of the client given a context with a deadline had not returned long after that deadline", "")
	}
	for _, c := range calls {
		cctx, ccancel := context.WithTimeout(context.Background(), dl)
		done := make(chan error, 1)
		go func(c string) {
			switch c {
			case "echo":
				done <- a.Echo(cctx)
			case "transact":
				_, err := a.Transact(cctx, toOvsOps([]OperationJ{{Op: "insert", Table: "Other", UUID: mkUUID(7600 + h), Row: Row{"name": VA(AS("s")), "n": VA(AI(int64(h)))}}})...)
				done <- err
			case "monitor":
				_, err := a.Monitor(cctx, a.NewMonitor(client.WithTable(adb.NewModel("Other", "", nil))))
				done <- err
			case "monitor-cancel":
				done <- a.MonitorCancel(cctx, cookie)
			}
		}(c)
		select {
		case err := <-done:
			if err == nil {
				r.Violation("silent-peer", cs, c+" returned nil", "an error", true,
					"the peer never answered, yet the call reported success", "")
			}
		case <-time.After(dl + 3*time.Second):
			ccancel()
			stuck(fmt.Sprintf("%s (deadline %v) has not returned 3s after its deadline", c, dl))
			px.stall(false)
			go a.Close()
			return
		}
		ccancel()
	}
	closed := make(chan struct{})
	go func() { a.Close(); close(closed) }()
	select {
	case <-closed:
	case <-time.After(5 * time.Second):
		stuck("Close has not returned 5s after calls to a silent peer timed out")
	}
	px.stall(false)
}
