package main

// C09: model <-> row mapping is lossless for every column type.
//   Mapper.NewRow -> json.Marshal -> ovsdb.Row.UnmarshalJSON -> Mapper.GetRowData / model.CreateModel
// on run-time struct types over generated schemas; a wrong Go field type or a
// wrong OVS value type is an error, never a conversion.

import (
	"encoding/json"
	"fmt"
	"math/rand"
	"reflect"
	"strings"

	"github.com/ovn-org/libovsdb/mapper"
	"github.com/ovn-org/libovsdb/model"
	"github.com/ovn-org/libovsdb/ovsdb"
)

func init() { props["C09"] = runC09 }

const zeroUUIDText = "00000000-0000-0000-0000-000000000000"

// genC09ColType: the whole supported type space (min/max 0..1, 1..1, 0..n, 1..n, 0..3, 1..3)
func genC09Col(rng *rand.Rand, i int) ColSpec {
	k := atomicTypes[rng.Intn(len(atomicTypes))]
	c := ColSpec{Name: fmt.Sprintf("c%d", i)}
	switch rng.Intn(8) {
	case 0, 1:
		c.Type = ColType{Kind: "atom", Key: k, Min: 1, Max: 1}
	case 2:
		c.Type = ColType{Kind: "opt", Key: k, Min: 0, Max: 1}
	case 3, 4:
		c.Type = ColType{Kind: "set", Key: k, Min: rng.Intn(2), Max: []int{-1, 3}[rng.Intn(2)]}
	case 5, 6:
		c.Type = ColType{Kind: "map", Key: k, Val: atomicTypes[rng.Intn(len(atomicTypes))], Min: rng.Intn(2), Max: []int{-1, 3}[rng.Intn(2)]}
	default: // enum
		k = []string{"string", "integer"}[rng.Intn(2)]
		c.IsEnum = true
		if k == "string" {
			c.EnumVals = []Atom{AS("a"), AS("b"), AS("c")}
		} else {
			c.EnumVals = []Atom{AI(1), AI(2), AI(3)}
		}
		if rng.Intn(2) == 0 {
			c.Type = ColType{Kind: "atom", Key: k, Min: 1, Max: 1}
		} else {
			c.Type = ColType{Kind: "set", Key: k, Min: 0, Max: -1}
		}
	}
	if c.Type.Key == "uuid" && rng.Intn(2) == 0 {
		c.RefTable, c.RefType = "T", []string{"strong", "weak"}[rng.Intn(2)]
	}
	if c.Type.Kind == "map" && c.Type.Val == "uuid" && rng.Intn(2) == 0 {
		c.ValRefTable, c.ValRefType = "T", []string{"strong", "weak"}[rng.Intn(2)]
	}
	return c
}

var c09Ints = []int64{0, 1, -1, 2, 7, 1 << 31, -(1 << 31), 1 << 40, 1<<53 - 1, -(1<<53 - 1), 1<<53 + 1, -(1<<53 + 1), 1<<62 + 12345, 1<<63 - 1, -1 << 63}

func genC09Atom(rng *rand.Rand, c ColSpec, key bool) Atom {
	t := c.Type.Key
	if !key {
		t = c.Type.Val
	}
	if key && c.IsEnum {
		return c.EnumVals[rng.Intn(len(c.EnumVals))]
	}
	switch t {
	case "integer":
		return AI(c09Ints[rng.Intn(len(c09Ints))])
	case "uuid":
		return AU(uuidPool[1+rng.Intn(len(uuidPool)-1)])
	case "string":
		if !c.IsEnum && rng.Intn(3) == 0 {
			return AS(c09Strings[rng.Intn(len(c09Strings))])
		}
	case "real":
		if rng.Intn(4) == 0 {
			// whole numbers too large for a float64 to write them with a fraction or an exponent: on the wire they
			// are digit strings, within and beyond the range of a 64-bit integer
			return AR(c09Reals[rng.Intn(len(c09Reals))])
		}
	}
	return genAtom(rng, t)
}

// strings that need escaping on the wire: control characters, quotes, characters outside the basic plane, what
// an HTML-safe encoder rewrites (all valid UTF-8: JSON cannot carry anything else)
var c09Strings = []string{"x\x01y", "\x7f", "bell\a", "a\vb", "\x00", "q\"uote", "back\\slash", "tab\there", "line\nbreak", "\r", "é", "\U000E0001", "<&>", "\u2028", "日本", "'", "\\u0041"}

var c09Reals = []float64{1 << 62, -(1 << 60), 1.2e18, 9007199254740994, 1e19, 1e20, 18446744073709551616, -9223372036854775808 * 2, 1.2345678901234568e20}

// genC09Value: a value of the column's type within its min/max
func genC09Value(rng *rand.Rand, c ColSpec) *Value {
	ct := c.Type
	switch ct.Kind {
	case "atom":
		return VA(genC09Atom(rng, c, true))
	case "opt":
		if rng.Intn(3) == 0 {
			return VO(nil)
		}
		a := genC09Atom(rng, c, true)
		return VO(&a)
	}
	max := 5
	if ct.Max > 0 {
		max = ct.Max
	}
	n := ct.Min + rng.Intn(max-ct.Min+1)
	if rng.Intn(4) == 0 {
		n = 1 // the one-element collection that collapses to an atom on the wire
	}
	seen := map[string]bool{}
	if ct.Kind == "set" {
		out := []Atom{}
		for i := 0; i < 4*n && len(out) < n; i++ {
			a := genC09Atom(rng, c, true)
			if !seen[a.Key()] {
				seen[a.Key()] = true
				out = append(out, a)
			}
		}
		return &Value{K: 'S', S: out}
	}
	out := [][2]Atom{}
	for i := 0; i < 4*n && len(out) < n; i++ {
		a := genC09Atom(rng, c, true)
		if !seen[a.Key()] {
			seen[a.Key()] = true
			out = append(out, [2]Atom{a, genC09Atom(rng, c, false)})
		}
	}
	return &Value{K: 'M', M: out}
}

func genC09Row(rng *rand.Rand, t TableSpec) Row {
	row := Row{}
	for _, c := range t.Cols {
		if rng.Intn(5) == 0 {
			row[c.Name] = zeroValue(c.Type)
		} else {
			row[c.Name] = genC09Value(rng, c)
		}
	}
	return row
}

type mapperOut struct {
	Row *struct {
		Ok  Row    `json:"ok"`
		Err string `json:"err"`
	} `json:"row"`
	JSON json.RawMessage `json:"json"`
	Back *struct {
		Ok  *ModelJ `json:"ok"`
		Err string  `json:"err"`
	} `json:"back"`
	Created *struct {
		Ok  *ModelJ `json:"ok"`
		Err string  `json:"err"`
	} `json:"created"`
}

func ovsRowAsRow(r ovsdb.Row) Row {
	out := Row{}
	for k, v := range r {
		out[k] = fromOvs(v)
	}
	return out
}

func fieldPtrs(db *DB, table string, m model.Model, cols []string) []interface{} {
	var out []interface{}
	e := reflect.ValueOf(m).Elem()
	for _, c := range cols {
		out = append(out, e.FieldByName(db.fieldOf[table][c]).Addr().Interface())
	}
	return out
}

func runC09(r *Run) {
	r.Rule = "generated tables over the whole supported type space (every atomic type in key and value position, min/max 0..1, 1..1, 0..n, 1..n, 0..3, 1..3, enums, strong/weak references) with run-time struct types; models with empty, one-element and multi-element collections, nil and non-nil optionals, zero values, integers over the whole 64-bit range; NewRow -> json.Marshal -> Row.UnmarshalJSON -> GetRowData / CreateModel, with and without a field list, into fresh and into populated models; wrong Go field types and wrong OVS value types; non-trivial = row with at least one non-default column; distinct by (schema, model, field list)"
	n := 1500
	if r.Tier == "thorough" {
		n = 25000
	}
	c09Witnesses(r)
	for i := 0; i < n; i++ {
		t := TableSpec{Name: "T", IsRoot: true}
		for j := 2 + r.Rng.Intn(5); j > 0; j-- {
			t.Cols = append(t.Cols, genC09Col(r.Rng, len(t.Cols)))
		}
		spec := SchemaSpec{Name: "db", Tables: []TableSpec{t}}
		db, err := BuildDB(spec, nil)
		if err != nil {
			r.Violation("build", map[string]interface{}{"table": t}, err.Error(), "", false, "cannot build the database model of a generated schema", "")
			continue
		}
		for k := 0; k < 3; k++ {
			nativeNilEmpty = r.Rng.Intn(2) == 0
			row := genC09Row(r.Rng, t)
			uuid := []string{"", uuidPool[1], uuidPool[2], "named"}[r.Rng.Intn(4)]
			var fields []string
			base := Row{}
			baseUUID := ""
			if r.Rng.Intn(3) == 0 { // explicit field list, populated receiver
				for _, c := range t.Cols {
					if r.Rng.Intn(2) == 0 {
						fields = append(fields, c.Name)
					}
				}
				if fields == nil {
					fields = []string{t.Cols[0].Name}
				}
				base = genC09Row(r.Rng, t)
				baseUUID = uuidPool[3]
			} else {
				for _, c := range t.Cols {
					base[c.Name] = zeroValue(c.Type)
				}
			}
			c09Case(r, db, t, uuid, row, baseUUID, base, fields, "")
			nativeNilEmpty = false
		}
		if i%4 == 0 {
			c09WrongOvs(r, db, t)
		}
		if i%10 == 0 {
			c09WrongGoType(r, t)
		}
	}
}

// c09Witnesses: the known findings' canonical inputs
func c09Witnesses(r *Run) {
	t := TableSpec{Name: "T", IsRoot: true, Cols: []ColSpec{
		{Name: "ref", Type: ColType{Kind: "atom", Key: "uuid", Min: 1, Max: 1}},
		{Name: "n", Type: ColType{Kind: "atom", Key: "integer", Min: 1, Max: 1}},
		{Name: "ns", Type: ColType{Kind: "set", Key: "integer", Min: 0, Max: -1}}}}
	db, err := BuildDB(SchemaSpec{Name: "db", Tables: []TableSpec{t}}, nil)
	if err != nil {
		panic(err)
	}
	zero := Row{"ref": VA(AU("")), "n": VA(AI(0)), "ns": VS()}
	c09Case(r, db, t, uuidPool[1], Row{"ref": VA(AU(zeroUUIDText)), "n": VA(AI(1)), "ns": VS()}, "", zero, nil, "all-zeros-uuid")
	c09Case(r, db, t, uuidPool[1], Row{"ref": VA(AU(uuidPool[2])), "n": VA(AI(1<<53 + 1)), "ns": VS(AI(-(1<<53 + 1)), AI(3))}, "", zero, nil, "integer-above-2^53")
}

func c09Case(r *Run, db *DB, t TableSpec, uuid string, row Row, baseUUID string, base Row, fields []string, known string) {
	cs := map[string]interface{}{"table": t, "model": ModelJ{uuid, row}, "base": ModelJ{baseUUID, base}, "fields": fields}
	key := ""
	for _, c := range t.Cols {
		if row[c.Name].Canon() != zeroValue(c.Type).Canon() {
			b, _ := json.Marshal(cs)
			key = string(b)
		}
	}
	stream := "roundtrip"
	if fields != nil {
		stream = "fields"
	}
	r.Case(stream, key)
	for _, c := range t.Cols {
		r.Count("col:" + c.Type.Kind + ":" + c.Type.Key)
		v := row[c.Name]
		switch {
		case v.K == 'S' && len(v.S) == 1, v.K == 'M' && len(v.M) == 1:
			r.Count("singleton-collection")
		case v.K == 'o' && v.O != nil:
			r.Count("optional-set")
		}
	}
	fail := func(impl, want, why string) {
		r.Violation(stream, cs, impl, want, true, why, known)
	}
	var panicked string
	var ovsRow ovsdb.Row
	var text []byte
	var gotUUID, createdUUID string
	var got, created Row
	func() {
		defer func() {
			if p := recover(); p != nil {
				panicked = fmt.Sprint(p)
			}
		}()
		m := db.NewModel("T", uuid, row)
		info, err := db.Model.NewModelInfo(m)
		if err != nil {
			panicked = "NewModelInfo: " + err.Error()
			return
		}
		if fields != nil {
			ovsRow, err = db.Model.Mapper.NewRow(info, fieldPtrs(db, "T", m, fields)...)
		} else {
			ovsRow, err = db.Model.Mapper.NewRow(info)
		}
		if err != nil {
			panicked = "NewRow: " + err.Error()
			return
		}
		text, err = json.Marshal(ovsRow)
		if err != nil {
			panicked = "Marshal: " + err.Error()
			return
		}
		var r2 ovsdb.Row
		if err = json.Unmarshal(text, &r2); err != nil {
			panicked = "Unmarshal: " + err.Error()
			return
		}
		m2 := db.NewModel("T", baseUUID, base)
		info2, err := db.Model.NewModelInfo(m2)
		if err != nil {
			panicked = "NewModelInfo: " + err.Error()
			return
		}
		if err = db.Model.Mapper.GetRowData(&r2, info2); err != nil {
			panicked = "GetRowData: " + err.Error()
			return
		}
		gotUUID, got = db.RowOf("T", m2)
		if fields == nil {
			m3, err := model.CreateModel(db.Model, "T", &r2, uuid)
			if err != nil {
				panicked = "CreateModel: " + err.Error()
				return
			}
			createdUUID, created = db.RowOf("T", m3)
		}
	}()
	if panicked != "" {
		fail(panicked, "a row and a model", "the mapping of a well-typed model failed")
		return
	}
	// oracle: field by field
	sel := map[string]bool{}
	for _, f := range fields {
		sel[f] = true
	}
	for _, c := range t.Cols {
		want := row[c.Name]
		if fields != nil && !sel[c.Name] {
			want = base[c.Name] // untouched
		} else if fields == nil && isDefaultHarness(c, row[c.Name]) {
			want = base[c.Name] // not sent: untouched (the base is the zero model here)
			if want.Canon() != row[c.Name].Canon() {
				fail(fmt.Sprintf("%s: sent as default", c.Name), row[c.Name].Canon(), "a non-zero value is treated as unset")
				return
			}
		}
		if got[c.Name].Canon() != want.Canon() {
			fail(fmt.Sprintf("%s = %s", c.Name, got[c.Name].Canon()), fmt.Sprintf("%s = %s", c.Name, want.Canon()), "a mapped field does not come back with the value it had")
			return
		}
		if fields == nil && created[c.Name].Canon() != row[c.Name].Canon() {
			fail(fmt.Sprintf("%s = %s", c.Name, created[c.Name].Canon()), fmt.Sprintf("%s = %s", c.Name, row[c.Name].Canon()), "CreateModel: a mapped field does not come back with the value it had")
			return
		}
	}
	if gotUUID != baseUUID {
		fail("uuid "+gotUUID, "uuid "+baseUUID, "GetRowData changed the _uuid field")
		return
	}
	if fields == nil && createdUUID != uuid {
		fail("uuid "+createdUUID, "uuid "+uuid, "CreateModel: _uuid differs")
		return
	}
	// correspondence with the model
	var mo mapperOut
	if err := r.Mdl.Call(map[string]interface{}{"fn": "mapper", "table": t, "model": ModelJ{uuid, row}, "base": ModelJ{baseUUID, base}, "fields": fields}, &mo); err != nil {
		r.Violation("mapper-model", cs, "", err.Error(), false, "model driver failed", "")
		return
	}
	if mo.Row == nil || mo.Row.Err != "" || mo.Back == nil || mo.Back.Ok == nil {
		r.Violation("mapper-model", cs, "row and model", fmt.Sprintf("%+v", mo), false, "the model rejects a mapping the implementation performs", "")
		return
	}
	if a, b := ovsRowAsRow(ovsRow).Canon(), mo.Row.Ok.Canon(); a != b {
		r.Violation("mapper-model", cs, a, b, false, "NewRow: rows of implementation and model differ", "")
		return
	}
	if a, b := canonText(text), canonText(mo.JSON); a != b {
		r.Violation("mapper-model", cs, a, b, false, "JSON of the row differs between implementation and model", "")
		return
	}
	if a, b := got.Canon(), mo.Back.Ok.Row.Canon(); a != b || gotUUID != mo.Back.Ok.UUID {
		r.Violation("mapper-model", cs, gotUUID+a, mo.Back.Ok.UUID+b, false, "GetRowData: models of implementation and model differ", known)
		return
	}
	if fields == nil {
		if mo.Created == nil || mo.Created.Ok == nil {
			r.Violation("mapper-model", cs, "model", fmt.Sprintf("%+v", mo.Created), false, "CreateModel: the model rejects", "")
			return
		}
		if a, b := created.Canon(), mo.Created.Ok.Row.Canon(); a != b || createdUUID != mo.Created.Ok.UUID {
			r.Violation("mapper-model", cs, createdUUID+a, mo.Created.Ok.UUID+b, false, "CreateModel: models of implementation and model differ", known)
		}
	}
}

// isDefaultHarness: the Go zero value of the field (what an unset field holds)
func isDefaultHarness(c ColSpec, v *Value) bool {
	return v.Canon() == zeroValue(c.Type).Canon()
}

// c09WrongOvs: a row in which one column holds an OVS value of another type
func c09WrongOvs(r *Run, db *DB, t TableSpec) {
	rng := r.Rng
	ci := rng.Intn(len(t.Cols))
	c := t.Cols[ci]
	// a value of a different shape or atomic type
	var wrong *Value
	other := func() string {
		for {
			k := atomicTypes[rng.Intn(len(atomicTypes))]
			if k != c.Type.Key && !(c.Type.Key == "integer" && k == "real") && !(c.Type.Key == "real" && k == "integer") {
				return k
			}
		}
	}
	switch rng.Intn(4) {
	case 0: // atom of another type
		wrong = VA(genAtom(rng, other()))
		if c.Type.Kind == "map" {
			wrong = VA(genAtom(rng, atomicTypes[rng.Intn(5)]))
		}
	case 1: // set of another type, two elements
		k := other()
		wrong = VS(genAtom(rng, k), genAtom(rng, k))
		if k == "boolean" {
			wrong = VS(AB(true), AB(false))
		}
		if wrong.S[0].Key() == wrong.S[1].Key() {
			wrong = VS(wrong.S[0])
		}
	case 2: // a map where none is expected, or a map of other types
		if c.Type.Kind == "map" {
			wrong = VM([2]Atom{genAtom(rng, other()), genC09Atom(rng, c, false)})
		} else {
			wrong = VM([2]Atom{AS("k"), AS("v")})
		}
	default: // too many elements for an optional / atom
		if c.Type.Kind == "opt" || c.Type.Kind == "atom" {
			a, b := genAtom(rng, c.Type.Key), genAtom(rng, c.Type.Key)
			for i := 0; i < 10 && a.Key() == b.Key(); i++ {
				b = genAtom(rng, c.Type.Key)
			}
			if a.Key() == b.Key() {
				return
			}
			wrong = VS(a, b)
		} else {
			wrong = VM([2]Atom{AS("k"), AS("v")})
			if c.Type.Kind == "map" {
				wrong = VS(AS("x"), AS("y"))
			}
		}
	}
	row := Row{c.Name: wrong}
	base := Row{}
	for _, cc := range t.Cols {
		base[cc.Name] = zeroValue(cc.Type)
	}
	cs := map[string]interface{}{"table": t, "row": row, "column": c.Name}
	r.Case("wrong-ovs-type", c.Name+wrong.Canon()+fmt.Sprint(c.Type))
	var implErr string
	func() {
		defer func() {
			if p := recover(); p != nil {
				implErr = "panic: " + fmt.Sprint(p)
			}
		}()
		text, _ := json.Marshal(rowToOvs(row))
		var r2 ovsdb.Row
		if err := json.Unmarshal(text, &r2); err != nil {
			implErr = "undecodable"
			return
		}
		m2 := db.NewModel("T", "", base)
		info2, _ := db.Model.NewModelInfo(m2)
		if err := db.Model.Mapper.GetRowData(&r2, info2); err != nil {
			implErr = "err"
		}
	}()
	var mo mapperOut
	// the model sees the row as it arrives from the wire
	if err := r.Mdl.Call(map[string]interface{}{"fn": "mapper", "table": t, "base": ModelJ{"", base}, "row": Row{c.Name: wireValue(wrong)}}, &mo); err != nil {
		r.Violation("wrong-ovs-type", cs, "", err.Error(), false, "model driver failed", "")
		return
	}
	modelErr := ""
	if mo.Back != nil && mo.Back.Err != "" {
		modelErr = "err"
	}
	if strings.HasPrefix(implErr, "panic") {
		r.Violation("wrong-ovs-type", cs, implErr, "error", true, "a value of the wrong type crashed the mapper", "")
		return
	}
	if implErr == "" {
		// every value generated here differs from the column's type in its shape or in the type of its
		// atoms: none of them may be converted
		r.Violation("wrong-ovs-type", cs, "accepted", "an error", true, "a value whose type does not match the column's type was converted instead of rejected", "")
		return
	}
	if implErr != modelErr {
		r.Violation("wrong-ovs-type", cs, "impl:"+implErr, "model:"+modelErr, false, "implementation and model disagree on whether a wrong-typed value is rejected", "")
		return
	}
	if implErr == "" {
		// accepted: only legitimate when the value is, after all, of the column's type (e.g. a one-element set for an atom)
		r.Count("wrong-ovs:accepted")
	} else {
		r.Count("wrong-ovs:rejected")
	}
}

// wireValue: what the JSON leg does to an OVS value (ints arrive as reals, a one-element set as its element)
func wireValue(v *Value) *Value {
	wa := func(a Atom) Atom {
		if a.K == 'i' {
			return AR(float64(a.I))
		}
		return a
	}
	switch v.K {
	case 'a':
		return VA(wa(v.A))
	case 'S':
		if len(v.S) == 1 {
			return VA(wa(v.S[0]))
		}
		out := []Atom{}
		for _, a := range v.S {
			out = append(out, wa(a))
		}
		return &Value{K: 'S', S: out}
	case 'M':
		out := [][2]Atom{}
		for _, p := range v.M {
			out = append(out, [2]Atom{wa(p[0]), wa(p[1])})
		}
		return &Value{K: 'M', M: out}
	}
	return v
}

// c09WrongGoType: a struct whose field type is not the column's native type is refused
func c09WrongGoType(r *Run, t TableSpec) {
	spec := SchemaSpec{Name: "db", Tables: []TableSpec{t}}
	var schema ovsdb.DatabaseSchema
	if err := json.Unmarshal(spec.JSON(), &schema); err != nil {
		return
	}
	ci := r.Rng.Intn(len(t.Cols))
	c := t.Cols[ci]
	right := ovsdb.NativeType(schema.Table("T").Column(c.Name))
	wrongs := []reflect.Type{reflect.TypeOf(0), reflect.TypeOf(""), reflect.TypeOf(0.5), reflect.TypeOf(true), reflect.TypeOf([]string{}), reflect.TypeOf([]int{}),
		reflect.TypeOf(map[string]string{}), reflect.TypeOf(map[string]int{}), reflect.TypeOf(new(string)), reflect.TypeOf(new(int)), reflect.TypeOf(int32(0)), reflect.TypeOf([]interface{}{})}
	w := wrongs[r.Rng.Intn(len(wrongs))]
	if w == right {
		return
	}
	st := reflect.StructOf([]reflect.StructField{
		{Name: "UUID", Type: reflect.TypeOf(""), Tag: `ovsdb:"_uuid"`},
		{Name: "F", Type: w, Tag: reflect.StructTag(fmt.Sprintf(`ovsdb:"%s"`, c.Name))}})
	obj := reflect.New(st).Interface()
	ts := schema.Table("T")
	cs := map[string]interface{}{"table": t, "column": c.Name, "goType": w.String(), "nativeType": right.String()}
	r.Case("wrong-go-type", c.Name+w.String()+right.String())
	var res string
	func() {
		defer func() {
			if p := recover(); p != nil {
				res = "panic: " + fmt.Sprint(p)
			}
		}()
		if _, err := mapper.NewInfo("T", ts, obj); err != nil {
			res = "err"
		}
	}()
	if res != "err" {
		r.Violation("wrong-go-type", cs, "accepted "+res, "error", true, "a struct field whose Go type does not match the column type is not rejected", "")
	}
	client, err := model.NewClientDBModel("db", map[string]model.Model{"T": obj})
	if err == nil {
		if _, errs := model.NewDatabaseModel(schema, client); len(errs) == 0 {
			r.Violation("wrong-go-type", cs, "database model accepted", "error", true, "a database model with a mistyped field is accepted", "")
		}
	}
	// the conversion itself: a value of another Go type (the element type of a set or optional column, for
	// instance) is an error, not something to wrap or convert
	val := reflect.New(w).Elem()
	if w.Kind() == reflect.Ptr {
		val = reflect.New(w.Elem())
	}
	var ores string
	func() {
		defer func() {
			if p := recover(); p != nil {
				ores = "panic: " + fmt.Sprint(p)
			}
		}()
		if out, err := ovsdb.NativeToOvs(ts.Column(c.Name), val.Interface()); err != nil {
			ores = "err"
		} else {
			ores = fmt.Sprintf("%#v", out)
		}
	}()
	if ores != "err" {
		r.Violation("wrong-go-type", cs, "NativeToOvs gave "+ores, "error", true, "a native value whose Go type does not match the column type is converted instead of rejected", "")
	}
}
