package main

// Deterministic ordering of client goroutines through the verif-tagged pause
// points of /repo/client (client.VerifPause).

import (
	"runtime"
	"sync"
	"sync/atomic"
	"time"

	"github.com/ovn-org/libovsdb/client"
	"github.com/ovn-org/libovsdb/server"
)

type pauseCtl struct {
	mu    sync.Mutex
	armed map[string]*pausePoint
}

type pausePoint struct {
	reached chan struct{}
	release chan struct{}
	once    sync.Once
	// after its release the goroutine spins at the gate until it opens, then for delay more iterations: two
	// goroutines parked at two points go on within nanoseconds of each other
	gate  *spinGate
	delay int
}

type spinGate struct{ arrived, open int32 }

// openWhen lets the spinning goroutines go once n of them are there
func (g *spinGate) openWhen(n int32, d time.Duration) bool {
	deadline := time.Now().Add(d)
	for atomic.LoadInt32(&g.arrived) < n {
		if time.Now().After(deadline) {
			atomic.StoreInt32(&g.open, 1)
			return false
		}
		runtime.Gosched()
	}
	atomic.StoreInt32(&g.open, 1)
	return true
}

var pauses = &pauseCtl{armed: map[string]*pausePoint{}}

func init() {
	server.VerifPause = func(point string) { client.VerifPause(point) }
	client.VerifPause = func(point string) {
		pauses.mu.Lock()
		p := pauses.armed[point]
		if p != nil {
			delete(pauses.armed, point) // one shot
		}
		pauses.mu.Unlock()
		if p == nil {
			return
		}
		close(p.reached)
		select {
		case <-p.release:
		case <-time.After(30 * time.Second): // never hang the process
			return
		}
		if g := p.gate; g != nil {
			atomic.AddInt32(&g.arrived, 1)
			for i := 0; atomic.LoadInt32(&g.open) == 0 && i < 2000000000; i++ {
			}
			for i := 0; i < p.delay; i++ {
				_ = atomic.LoadInt32(&g.open)
			}
		}
	}
}

// arm makes the next goroutine that reaches point stop there until release is called
func (c *pauseCtl) arm(point string) *pausePoint {
	p := &pausePoint{reached: make(chan struct{}), release: make(chan struct{})}
	c.mu.Lock()
	c.armed[point] = p
	c.mu.Unlock()
	return p
}

func (c *pauseCtl) disarm(point string) {
	c.mu.Lock()
	delete(c.armed, point)
	c.mu.Unlock()
}

func (p *pausePoint) waitReached(d time.Duration) bool {
	select {
	case <-p.reached:
		return true
	case <-time.After(d):
		return false
	}
}

func (p *pausePoint) Release() { p.once.Do(func() { close(p.release) }) }
