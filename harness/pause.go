package main

// Deterministic ordering of client goroutines through the verif-tagged pause
// points of /repo/client (client.VerifPause).

import (
	"sync"
	"time"

	"github.com/ovn-org/libovsdb/client"
	"github.com/ovn-org/libovsdb/server"
)

type pauseCtl struct {
	mu    sync.Mutex
	armed map[string]*pausePoint
}

type pausePoint struct {
	reached chan struct{}
	release chan struct{}
	once    sync.Once
}

var pauses = &pauseCtl{armed: map[string]*pausePoint{}}

func init() {
	server.VerifPause = func(point string) { client.VerifPause(point) }
	client.VerifPause = func(point string) {
		pauses.mu.Lock()
		p := pauses.armed[point]
		if p != nil {
			delete(pauses.armed, point) // one shot
		}
		pauses.mu.Unlock()
		if p == nil {
			return
		}
		close(p.reached)
		select {
		case <-p.release:
		case <-time.After(30 * time.Second): // never hang the process
		}
	}
}

// arm makes the next goroutine that reaches point stop there until release is called
func (c *pauseCtl) arm(point string) *pausePoint {
	p := &pausePoint{reached: make(chan struct{}), release: make(chan struct{})}
	c.mu.Lock()
	c.armed[point] = p
	c.mu.Unlock()
	return p
}

func (c *pauseCtl) disarm(point string) {
	c.mu.Lock()
	delete(c.armed, point)
	c.mu.Unlock()
}

func (p *pausePoint) waitReached(d time.Duration) bool {
	select {
	case <-p.reached:
		return true
	case <-time.After(d):
		return false
	}
}

func (p *pausePoint) Release() { p.once.Do(func() { close(p.release) }) }
