package main

// C18 / C16: a peer that goes quiet for longer than the inactivity probe allows and then answers everything at
// once, while a Transact is in flight. The probe loop decides to disconnect (it needs the connection lock,
// which the Transact holds for reading); the Transact's reply arrives. Both must come to an end: the Transact
// returns (results or an error), and the client is usable afterwards.

import (
	"fmt"
	"time"

	"github.com/cenkalti/backoff/v4"
	"github.com/ovn-org/libovsdb/client"
)

func c18ProbeStall(r *Run, h int) {
	rng := r.Rng
	ts := c18Schema()
	rig, err := newRig(ts)
	if err != nil {
		return
	}
	defer rig.Close()
	px, err := newProxy(rig.sock)
	if err != nil {
		return
	}
	defer px.Close()
	ctx, cancel := ctxT(60 * time.Second)
	defer cancel()
	probe := time.Duration(20+rng.Intn(30)) * time.Millisecond
	a, _, err := rig.newClient(px.endpoint(), client.WithInactivityCheck(probe, 2*time.Second, backoff.NewConstantBackOff(3*time.Millisecond)))
	if err != nil || a.Connect(ctx) != nil {
		return
	}
	defer a.Close()
	if _, err := a.MonitorAll(ctx); err != nil {
		return
	}
	quiet := probe*2 + time.Duration(rng.Intn(40))*time.Millisecond
	cs := map[string]interface{}{"run": h, "probe_ms": probe.Milliseconds(), "quiet_ms": quiet.Milliseconds()}
	r.Case("probe-stall", fmt.Sprint(h, probe, quiet))
	px.stall(true)
	txnDone := make(chan error, 1)
	go func() {
		tctx, tcancel := ctxT(3 * time.Second)
		defer tcancel()
		_, err := a.Transact(tctx, toOvsOps([]OperationJ{{Op: "insert", Table: "Other", UUID: mkUUID(7000 + h), Row: Row{"name": VA(AS("x")), "n": VA(AI(int64(h)))}}})...)
		txnDone <- err
	}()
	time.Sleep(quiet)
	px.stall(false)
	stuck := func(what string) {
		r.Violation("probe-stall", cs, what, "returns", true,
			"after a peer was quiet for longer than the inactivity probe allows and then answered, a call of the client never returned", "")
	}
	select {
	case <-txnDone:
	case <-time.After(8 * time.Second):
		stuck("Transact (context of 3s) has not returned 8s after the peer answered again")
		return
	}
	// the client is usable: within a few seconds an Echo goes through (after a reconnect, if the probe gave up)
	ok := false
	for try := 0; try < 100 && !ok; try++ {
		ectx, ecancel := ctxT(500 * time.Millisecond)
		done := make(chan error, 1)
		go func() { done <- a.Echo(ectx) }()
		select {
		case err := <-done:
			ok = err == nil
		case <-time.After(3 * time.Second):
			ecancel()
			stuck("Echo (context of 500ms) has not returned after 3s")
			return
		}
		ecancel()
		if !ok {
			time.Sleep(20 * time.Millisecond)
		}
	}
	if !ok {
		stuck("no Echo went through within 100 attempts after the peer answered again")
	}
}
