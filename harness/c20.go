package main

// C20: models generated from a schema fit that schema and behave like generic
// models. (1) the generated field type, the mapper's native type and the Lean
// model agree over the whole column type space; (2) for generated schemas the
// generator's output is identical from run to run, compiles, validates against
// the schema and its copy / equality methods agree with the generic ones (a
// program generated next to the models checks the laws on random values).

import (
	"bytes"
	"encoding/json"
	"fmt"
	"os"
	"os/exec"
	"path/filepath"
	"strings"
	"time"

	"github.com/ovn-org/libovsdb/modelgen"
	"github.com/ovn-org/libovsdb/ovsdb"
)

func init() { props["C20"] = runC20 }

func runC20(r *Run) {
	r.Rule = "(field types) every column shape: atomic of each type, enum of each atomic type, optional, optional enum, sets with min/max 0..1, 0..n, 1..n, 0..3, 1..3, 2..5, enum sets, maps of every key/value pair: modelgen.FieldType / FieldTypeWithEnums vs reflect type of ovsdb.NativeType vs the Lean model; (generation) schemas with such columns, column names needing initialism and camel-case handling, table names with underscores, extended generation and enum types on and off: two runs give identical bytes, the package compiles, NewDatabaseModel(Schema(), FullDatabaseModel()) validates, and on random values Clone is equal, shares nothing, and Equal agrees with reflect.DeepEqual including single-field differences; (names) FieldName, StructName, FileName and the enum alias on random RFC 7047 ids compared with the Lean model of modelgen's naming, and exportedness of every name whose first character other than '_' is a letter; (collisions) valid schemas whose names the naming scheme maps to one identifier are generated and compiled too: their failure is the known finding identifier-collision; non-trivial = every case; distinct by (column shape) / (schema, options) / (table, column)"
	c20FieldTypes(r)
	n := 2
	if r.Tier == "thorough" {
		n = 12
	}
	for h := 0; h < n; h++ {
		for opt := 0; opt < 4; opt++ {
			c20Generate(r, h, opt&1 == 1, opt&2 == 2)
		}
	}
	for h := 0; h < 4*n; h++ {
		c20Deterministic(r, h)
	}
	c20Names(r)
	nc := 2
	if r.Tier == "thorough" {
		nc = 7
	}
	for k := 0; k < nc; k++ {
		c20Collide(r, int(r.Seed)*2+k)
	}
	c20Command(r, 3*n)
}

// c20Deterministic: "identical from run to run" on schemas with many tables and columns (the generator walks
// Go maps: tables, columns, enum values): every file is formatted six times and must come out the same.
func c20Deterministic(r *Run, h int) {
	rng := r.Rng
	all := c20Columns()
	tableNames := []string{"Logical_Switch_Port", "Bridge", "ACL", "NAT_rule", "T", "dns_record", "QoS", "Port_Binding", "sb_global"}
	colNames := []string{"external_ids", "other_config", "ip", "mac_addr", "vlan_mode", "name", "dns_name", "uuid_ref", "acl-priority", "c", "stp_enable", "ipfix", "n"}
	tables := map[string]interface{}{}
	for _, tn := range tableNames[:5+rng.Intn(5)] {
		cols := map[string]interface{}{}
		rng.Shuffle(len(colNames), func(a, b int) { colNames[a], colNames[b] = colNames[b], colNames[a] })
		for j := 0; j < 6+rng.Intn(7); j++ {
			cols[colNames[j]] = map[string]interface{}{"type": all[rng.Intn(len(all))].json}
		}
		tables[tn] = map[string]interface{}{"columns": cols, "isRoot": true}
	}
	sb, _ := json.Marshal(map[string]interface{}{"name": "db", "version": "1.0.0", "tables": tables})
	enumTypes, extended := h&1 == 1, h&2 == 2
	cs := map[string]interface{}{"schema": string(sb), "enumTypes": enumTypes, "extended": extended}
	r.Case("deterministic", fmt.Sprintf("%s|%v|%v", sb, enumTypes, extended))
	var schema ovsdb.DatabaseSchema
	if err := json.Unmarshal(sb, &schema); err != nil {
		r.Violation("deterministic", cs, err.Error(), "", true, "a valid schema is rejected", "")
		return
	}
	gen, err := modelgen.NewGenerator()
	if err != nil {
		return
	}
	files := map[string][]byte{}
	for pass := 0; pass < 6; pass++ {
		var bad string
		func() {
			defer func() {
				if p := recover(); p != nil {
					bad = fmt.Sprint("panic: ", p)
				}
			}()
			// a fresh decode per pass, as a fresh run of the tool has
			var sc ovsdb.DatabaseSchema
			_ = json.Unmarshal(sb, &sc)
			out := map[string][]byte{}
			for name, table := range sc.Tables {
				tt := table
				data := modelgen.GetTableTemplateData("gen", name, &tt)
				data.WithEnumTypes(enumTypes)
				data.WithExtendedGen(extended)
				src, err := gen.Format(modelgen.NewTableTemplate(), data)
				if err != nil {
					bad = fmt.Sprintf("table %s: %v", name, err)
					return
				}
				out[modelgen.FileName(name)] = src
			}
			src, err := gen.Format(modelgen.NewDBTemplate(), modelgen.GetDBTemplateData("gen", sc))
			if err != nil {
				bad = "db model: " + err.Error()
				return
			}
			out["model.go"] = src
			for fn, b := range out {
				if pass > 0 && !bytes.Equal(files[fn], b) {
					bad = "NONDETERMINISTIC " + fn
					return
				}
				files[fn] = b
			}
		}()
		if bad != "" {
			r.Violation("deterministic", cs, bad, "identical output", true, "runs of the generator on the same schema give different files (or the generator fails)", "")
			return
		}
	}
}

type c20Col struct {
	name string
	json interface{}
	enum bool
}

func c20Columns() []c20Col {
	var out []c20Col
	enumOf := func(t string) interface{} {
		// numbers large enough for %v to switch to exponent notation, negative ones, text that is not an identifier
		vals := map[string][]interface{}{"string": {"a", "b", "x-y z", "1st", "q\"x", "b\\c", "t`k", "nl\nx"}, "integer": {1, 2, 1000000, 25000000, -3}, "real": {0.5, 1.5, 1500000.5, 2000000.0, -0.25}, "boolean": {true, false},
			"uuid": {[]interface{}{"uuid", uuidPool[1]}, []interface{}{"uuid", uuidPool[2]}}}[t]
		return map[string]interface{}{"type": t, "enum": []interface{}{"set", vals}}
	}
	for _, t := range atomicTypes {
		out = append(out, c20Col{"atom_" + t, t, false})
		out = append(out, c20Col{"atomobj_" + t, map[string]interface{}{"key": t}, false})
		out = append(out, c20Col{"opt_" + t, map[string]interface{}{"key": t, "min": 0, "max": 1}, false})
		for _, mm := range [][2]interface{}{{0, "unlimited"}, {1, "unlimited"}, {0, 3}, {1, 3}, {2, 5}} {
			out = append(out, c20Col{fmt.Sprintf("set_%s_%v_%v", t, mm[0], mm[1]), map[string]interface{}{"key": t, "min": mm[0], "max": mm[1]}, false})
		}
		if t != "uuid" {
			out = append(out, c20Col{"enum_" + t, map[string]interface{}{"key": enumOf(t)}, true})
			out = append(out, c20Col{"optenum_" + t, map[string]interface{}{"key": enumOf(t), "min": 0, "max": 1}, true})
			out = append(out, c20Col{"enumset_" + t, map[string]interface{}{"key": enumOf(t), "min": 0, "max": "unlimited"}, true})
		}
		for _, v := range atomicTypes {
			out = append(out, c20Col{"map_" + t + "_" + v, map[string]interface{}{"key": t, "value": v, "min": 0, "max": "unlimited"}, false})
		}
	}
	return out
}

func c20FieldTypes(r *Run) {
	for _, c := range c20Columns() {
		colJSON := map[string]interface{}{"type": c.json}
		b, _ := json.Marshal(colJSON)
		var cs ovsdb.ColumnSchema
		cse := map[string]interface{}{"column": c.name, "schema": string(b)}
		if err := json.Unmarshal(b, &cs); err != nil {
			r.Violation("field-type", cse, err.Error(), "", true, "a valid column schema is rejected", "")
			continue
		}
		r.Case("field-type", c.name)
		native := ovsdb.NativeType(&cs).String()
		plain := modelgen.FieldType("Tab", c.name, &cs)
		enums := modelgen.FieldTypeWithEnums("Tab", c.name, &cs)
		if plain != native {
			r.Violation("field-type", cse, plain, native, true, "the generated field type differs from the type the mapper requires", "")
			continue
		}
		var mo struct {
			Native, Plain, Enums, EnumsErased, Err string
		}
		alias := ""
		if e := modelgen.FieldEnum("Tab", c.name, &cs); e != nil {
			alias = e.Alias
		}
		if err := r.Mdl.Call(map[string]interface{}{"fn": "fieldType", "alias": alias, "column": json.RawMessage(b)}, &mo); err != nil || mo.Err != "" {
			r.Violation("field-type-model", cse, native, fmt.Sprint(err, mo.Err), false, "model driver failed", "")
			continue
		}
		if mo.Native != native || mo.Plain != plain || mo.Enums != enums || mo.EnumsErased != native {
			r.Violation("field-type-model", cse, fmt.Sprintf("native=%s plain=%s enums=%s", native, plain, enums),
				fmt.Sprintf("native=%s plain=%s enums=%s erased=%s", mo.Native, mo.Plain, mo.Enums, mo.EnumsErased), false,
				"field types of implementation and model differ", "")
		}
	}
}

// c20Schema: a schema whose names need camel-case / initialism handling
func c20Schema(r *Run, h int) (string, map[string]interface{}) {
	rng := r.Rng
	if h == 0 { // shortest possible names: table "T", enum column "c" (alias "TC"), a one-letter map column
		return "db", map[string]interface{}{"name": "db", "version": "1.0.0", "tables": map[string]interface{}{"T": map[string]interface{}{"isRoot": true,
			"columns": map[string]interface{}{
				"c": map[string]interface{}{"type": map[string]interface{}{"key": map[string]interface{}{"type": "string", "enum": []interface{}{"set", []interface{}{"a", "b"}}}}},
				"d": map[string]interface{}{"type": map[string]interface{}{"key": map[string]interface{}{"type": "string", "enum": []interface{}{"set", []interface{}{"x-y", "z"}}}, "min": 0, "max": 1}},
				"m": map[string]interface{}{"type": map[string]interface{}{"key": "string", "value": "string", "min": 0, "max": "unlimited"}}}}}}
	}
	all := c20Columns()
	tableNames := []string{"Logical_Switch_Port", "Bridge", "ACL", "NAT_rule", "T", "dns_record", "QoS"}
	colNames := []string{"external_ids", "other_config", "ip", "mac_addr", "vlan_mode", "name", "dns_name", "uuid_ref", "acl-priority", "c", "stp_enable", "ipfix", "n"}
	tables := map[string]interface{}{}
	nt := 1 + rng.Intn(3)
	for i := 0; i < nt; i++ {
		tn := tableNames[(h+i*3)%len(tableNames)]
		cols := map[string]interface{}{}
		rng.Shuffle(len(colNames), func(a, b int) { colNames[a], colNames[b] = colNames[b], colNames[a] })
		for j := 0; j < 3+rng.Intn(6); j++ {
			c := all[rng.Intn(len(all))]
			cols[colNames[j]] = map[string]interface{}{"type": c.json}
		}
		t := map[string]interface{}{"columns": cols, "isRoot": true}
		tables[tn] = t
	}
	return "db", map[string]interface{}{"name": "db", "version": "1.0.0", "tables": tables}
}

const c20CheckProgram = `package main

import (
	"fmt"
	"math/rand"
	"os"
	"reflect"
	"sort"

	gen "c20gen/gen"
	"github.com/ovn-org/libovsdb/model"
)

func fill(v reflect.Value, rng *rand.Rand) {
	switch v.Kind() {
	case reflect.String:
		v.SetString([]string{"", "a", "b", "11111111-1111-4111-8111-111111111111"}[rng.Intn(4)])
	case reflect.Int:
		v.SetInt(int64(rng.Intn(5)))
	case reflect.Float64:
		v.SetFloat([]float64{0, 0.5, 1.5, 2}[rng.Intn(4)])
	case reflect.Bool:
		v.SetBool(rng.Intn(2) == 0)
	case reflect.Ptr:
		if rng.Intn(3) == 0 {
			v.Set(reflect.Zero(v.Type()))
			return
		}
		p := reflect.New(v.Type().Elem())
		fill(p.Elem(), rng)
		v.Set(p)
	case reflect.Slice:
		switch rng.Intn(4) {
		case 0:
			v.Set(reflect.Zero(v.Type()))
		default:
			n := rng.Intn(4)
			s := reflect.MakeSlice(v.Type(), n, n)
			for i := 0; i < n; i++ {
				fill(s.Index(i), rng)
			}
			v.Set(s)
		}
	case reflect.Map:
		if rng.Intn(4) == 0 {
			v.Set(reflect.Zero(v.Type()))
			return
		}
		m := reflect.MakeMap(v.Type())
		for i := rng.Intn(4); i > 0; i-- {
			k := reflect.New(v.Type().Key()).Elem()
			fill(k, rng)
			e := reflect.New(v.Type().Elem()).Elem()
			fill(e, rng)
			m.SetMapIndex(k, e)
		}
		v.Set(m)
	}
}

func scramble(f reflect.Value) int {
	switch f.Kind() {
	case reflect.String:
		f.SetString(f.String() + "~")
		return 1
	case reflect.Int:
		f.SetInt(f.Int() + 1000)
		return 1
	case reflect.Float64:
		f.SetFloat(f.Float() + 1000.5)
		return 1
	case reflect.Bool:
		f.SetBool(!f.Bool())
		return 1
	case reflect.Ptr:
		if f.IsNil() {
			return 0
		}
		return scramble(f.Elem())
	case reflect.Slice:
		n := 0
		for i := 0; i < f.Len(); i++ {
			n += scramble(f.Index(i))
		}
		return n
	case reflect.Map:
		n := 0
		for _, k := range f.MapKeys() {
			nv := reflect.New(f.Type().Elem()).Elem()
			nv.Set(f.MapIndex(k))
			scramble(nv)
			f.SetMapIndex(k, nv)
			n++
		}
		return n
	}
	return 0
}

// rekey moves the value of one key of a map to a key the map does not have
func rekey(f reflect.Value) bool {
	if f.IsNil() || f.Len() == 0 {
		return false
	}
	k := f.MapKeys()[0]
	v := f.MapIndex(k)
	nk := reflect.New(f.Type().Key()).Elem()
	nk.Set(k)
	for try := 0; try < 5; try++ {
		scramble(nk)
		if !f.MapIndex(nk).IsValid() {
			f.SetMapIndex(nk, v)
			f.SetMapIndex(k, reflect.Value{})
			return true
		}
	}
	return false
}

func fail(format string, args ...interface{}) {
	fmt.Printf("FAIL: "+format+"\n", args...)
	os.Exit(0)
}

func main() {
	cdm, err := gen.FullDatabaseModel()
	if err != nil {
		fail("FullDatabaseModel: %v", err)
	}
	dbm, errs := model.NewDatabaseModel(gen.Schema(), cdm)
	if len(errs) > 0 {
		fail("the generated model does not validate against its schema: %v", errs)
	}
	rng := rand.New(rand.NewSource(1))
	var tables []string
	for t := range dbm.Types() {
		tables = append(tables, t)
	}
	sort.Strings(tables)
	laws := 0
	for _, t := range tables {
		typ := dbm.Types()[t].Elem()
		for trial := 0; trial < 150; trial++ {
			a := reflect.New(typ)
			for i := 0; i < typ.NumField(); i++ {
				fill(a.Elem().Field(i), rng)
			}
			// reference copy made field by field here, not by the code under test
			ref := reflect.New(typ)
			refCopy(ref.Elem(), a.Elem())
			c := model.Clone(a.Interface())
			if !reflect.DeepEqual(a.Interface(), c) {
				fail("%s: Clone is not deeply equal to its argument: %+v vs %+v", t, a.Interface(), c)
			}
			if !model.Equal(a.Interface(), c) || !model.Equal(c, a.Interface()) || !model.Equal(a.Interface(), a.Interface()) {
				fail("%s: Equal(a, Clone(a)) is false: %+v", t, a.Interface())
			}
			cv := reflect.ValueOf(c).Elem()
			for i := 0; i < typ.NumField(); i++ {
				scramble(cv.Field(i))
			}
			if !reflect.DeepEqual(a.Interface(), ref.Interface()) {
				fail("%s: writing through a Clone changed the original: %+v, was %+v", t, a.Interface(), ref.Interface())
			}
			// CloneInto a populated destination
			d := reflect.New(typ)
			for i := 0; i < typ.NumField(); i++ {
				fill(d.Elem().Field(i), rng)
			}
			model.CloneInto(a.Interface(), d.Interface())
			if !reflect.DeepEqual(a.Interface(), d.Interface()) {
				fail("%s: CloneInto a populated model does not give the source: %+v vs %+v", t, a.Interface(), d.Interface())
			}
			// Equal agrees with DeepEqual: another random model, and single-field differences
			b := reflect.New(typ)
			for i := 0; i < typ.NumField(); i++ {
				fill(b.Elem().Field(i), rng)
			}
			if model.Equal(a.Interface(), b.Interface()) != reflect.DeepEqual(a.Interface(), b.Interface()) {
				fail("%s: Equal = %v but DeepEqual = %v for %+v and %+v", t, model.Equal(a.Interface(), b.Interface()),
					reflect.DeepEqual(a.Interface(), b.Interface()), a.Interface(), b.Interface())
			}
			// a map whose only difference is the name of one key (the value, possibly the zero value, is kept)
			for i := 0; i < typ.NumField(); i++ {
				if typ.Field(i).Type.Kind() != reflect.Map {
					continue
				}
				e := reflect.New(typ)
				refCopy(e.Elem(), a.Elem())
				if !rekey(e.Elem().Field(i)) {
					continue
				}
				if model.Equal(a.Interface(), e.Interface()) != reflect.DeepEqual(a.Interface(), e.Interface()) ||
					model.Equal(e.Interface(), a.Interface()) != reflect.DeepEqual(a.Interface(), e.Interface()) {
					fail("%s: Equal = %v but DeepEqual = %v when one key of map field %s is renamed: %+v and %+v", t,
						model.Equal(a.Interface(), e.Interface()), reflect.DeepEqual(a.Interface(), e.Interface()), typ.Field(i).Name, a.Interface(), e.Interface())
				}
				laws++
			}
			// a shallow copy whose only difference is that one slice field is a prefix of the original's (the same
			// backing array, fewer elements), or a pointer field to an equal value elsewhere
			for i := 0; i < typ.NumField(); i++ {
				f := a.Elem().Field(i)
				if f.Kind() != reflect.Slice || f.Len() < 2 {
					continue
				}
				e := reflect.New(typ)
				e.Elem().Set(a.Elem())
				e.Elem().Field(i).Set(f.Slice(0, f.Len()-1))
				if model.Equal(a.Interface(), e.Interface()) != reflect.DeepEqual(a.Interface(), e.Interface()) ||
					model.Equal(e.Interface(), a.Interface()) != reflect.DeepEqual(a.Interface(), e.Interface()) {
					fail("%s: Equal = %v but DeepEqual = %v when slice field %s of one model is a prefix of the other's (same array): %+v and %+v", t,
						model.Equal(a.Interface(), e.Interface()), reflect.DeepEqual(a.Interface(), e.Interface()), typ.Field(i).Name, a.Interface(), e.Interface())
				}
				laws++
			}
			for i := 0; i < typ.NumField(); i++ {
				e := reflect.New(typ)
				refCopy(e.Elem(), a.Elem())
				if scramble(e.Elem().Field(i)) == 0 {
					continue
				}
				if model.Equal(a.Interface(), e.Interface()) != reflect.DeepEqual(a.Interface(), e.Interface()) {
					fail("%s: Equal = %v but DeepEqual = %v when only field %s differs: %+v and %+v", t,
						model.Equal(a.Interface(), e.Interface()), reflect.DeepEqual(a.Interface(), e.Interface()), typ.Field(i).Name, a.Interface(), e.Interface())
				}
				laws++
			}
			laws += 5
		}
	}
	fmt.Printf("OK %d\n", laws)
}

func refCopy(dst, src reflect.Value) {
	switch src.Kind() {
	case reflect.Ptr:
		if src.IsNil() {
			dst.Set(reflect.Zero(src.Type()))
			return
		}
		p := reflect.New(src.Type().Elem())
		refCopy(p.Elem(), src.Elem())
		dst.Set(p)
	case reflect.Slice:
		if src.IsNil() {
			dst.Set(reflect.Zero(src.Type()))
			return
		}
		s := reflect.MakeSlice(src.Type(), src.Len(), src.Len())
		for i := 0; i < src.Len(); i++ {
			refCopy(s.Index(i), src.Index(i))
		}
		dst.Set(s)
	case reflect.Map:
		if src.IsNil() {
			dst.Set(reflect.Zero(src.Type()))
			return
		}
		m := reflect.MakeMap(src.Type())
		for _, k := range src.MapKeys() {
			m.SetMapIndex(k, src.MapIndex(k))
		}
		dst.Set(m)
	case reflect.Struct:
		for i := 0; i < src.NumField(); i++ {
			refCopy(dst.Field(i), src.Field(i))
		}
	default:
		dst.Set(src)
	}
}
`

func c20Generate(r *Run, h int, enumTypes, extended bool) {
	_, schemaJSON := c20Schema(r, h)
	c20GenerateSchema(r, schemaJSON, enumTypes, extended)
}

// c20Collide: valid schemas whose names the generator's naming scheme cannot keep apart (see c20Collisions)
func c20Collide(r *Run, kind int) {
	str := map[string]interface{}{"type": "string"}
	enum := func(vals ...interface{}) map[string]interface{} {
		return map[string]interface{}{"type": map[string]interface{}{"key": map[string]interface{}{"type": "string", "enum": []interface{}{"set", vals}}}}
	}
	table := func(cols map[string]interface{}) map[string]interface{} {
		return map[string]interface{}{"isRoot": true, "columns": cols}
	}
	var tables map[string]interface{}
	switch kind % 7 {
	case 0:
		tables = map[string]interface{}{"T": table(map[string]interface{}{"ab": str, "AB": str})}
	case 1:
		tables = map[string]interface{}{"T": table(map[string]interface{}{"a_b": str, "a__b": str})}
	case 2:
		tables = map[string]interface{}{"A_B": table(map[string]interface{}{"x": str}), "AB": table(map[string]interface{}{"y": str})}
	case 3:
		tables = map[string]interface{}{"Ab": table(map[string]interface{}{"x": str}), "ab": table(map[string]interface{}{"y": str})}
	case 4:
		tables = map[string]interface{}{"T": table(map[string]interface{}{"c": enum("A", "a")})}
	case 5:
		tables = map[string]interface{}{"A": table(map[string]interface{}{"b_c": enum("x", "y")}), "AB": table(map[string]interface{}{"c": enum("x", "y")})}
	default:
		tables = map[string]interface{}{"T": table(map[string]interface{}{"_1": str, "x": str})}
	}
	r.Count(fmt.Sprintf("collision-kind:%d", kind%7))
	c20GenerateSchema(r, map[string]interface{}{"name": "db", "version": "1.0.0", "tables": tables}, true, kind%2 == 0)
}

func c20GenerateSchema(r *Run, schemaJSON map[string]interface{}, enumTypes, extended bool) {
	sb, _ := json.Marshal(schemaJSON)
	cs := map[string]interface{}{"schema": string(sb), "enumTypes": enumTypes, "extended": extended}
	r.Case("generate", fmt.Sprintf("%s|%v|%v", sb, enumTypes, extended))
	known := ""
	fail := func(impl, want, why string) { r.Violation("generate", cs, impl, want, true, why, known) }
	var schema ovsdb.DatabaseSchema
	if err := json.Unmarshal(sb, &schema); err != nil {
		fail(err.Error(), "", "a valid schema is rejected")
		return
	}
	if coll := c20Collisions(schema); len(coll) > 0 {
		// the naming scheme maps two names of this schema to one identifier: known finding, reported as such
		// when (and only when) the generated code fails for it
		known = "identifier-collision"
		cs["collisions"] = coll
	}
	gen, err := modelgen.NewGenerator()
	if err != nil {
		fail(err.Error(), "", "NewGenerator failed")
		return
	}
	files := map[string][]byte{}
	for pass := 0; pass < 2; pass++ {
		var genErr string
		func() {
			defer func() {
				if p := recover(); p != nil {
					genErr = fmt.Sprint("panic: ", p)
				}
			}()
			for name, table := range schema.Tables {
				tt := table
				data := modelgen.GetTableTemplateData("gen", name, &tt)
				data.WithEnumTypes(enumTypes)
				data.WithExtendedGen(extended)
				src, err := gen.Format(modelgen.NewTableTemplate(), data)
				if err != nil {
					genErr = fmt.Sprintf("table %s: %v", name, err)
					return
				}
				fn := modelgen.FileName(name)
				if pass == 1 && !bytes.Equal(files[fn], src) {
					genErr = "NONDETERMINISTIC " + fn
					return
				}
				files[fn] = src
			}
			src, err := gen.Format(modelgen.NewDBTemplate(), modelgen.GetDBTemplateData("gen", schema))
			if err != nil {
				genErr = "db model: " + err.Error()
				return
			}
			if pass == 1 && !bytes.Equal(files["model.go"], src) {
				genErr = "NONDETERMINISTIC model.go"
				return
			}
			files["model.go"] = src
		}()
		if strings.HasPrefix(genErr, "NONDETERMINISTIC") {
			fail(genErr, "identical output", "two runs of the generator on the same schema give different files")
			return
		}
		if genErr != "" {
			fail(genErr, "generated code", "the generator fails on a valid schema")
			return
		}
	}
	// a module with the generated package and the checking program
	dir, err := os.MkdirTemp("", "verif-c20-")
	if err != nil {
		return
	}
	defer os.RemoveAll(dir)
	repo := os.Getenv("VERIF_REPO")
	if repo == "" {
		repo = "/repo"
	}
	os.MkdirAll(filepath.Join(dir, "gen"), 0o755)
	os.MkdirAll(filepath.Join(dir, "cmd"), 0o755)
	os.WriteFile(filepath.Join(dir, "go.mod"), []byte("module c20gen\n\ngo 1.22\n\nrequire github.com/ovn-org/libovsdb v0.0.0\n\nreplace github.com/ovn-org/libovsdb => "+repo+"\n"), 0o644)
	if b, err := os.ReadFile(filepath.Join(repo, "go.sum")); err == nil {
		os.WriteFile(filepath.Join(dir, "go.sum"), b, 0o644)
	}
	// the files are written by the generator itself, as modelgen's main does, over a generation of the same
	// schema with the other options (a user who switches a flag and runs go generate again): what ends up on
	// disk must be what the generator formats for these options
	writeAll := func(enums, ext bool) (err error) {
		defer func() {
			if p := recover(); p != nil {
				err = fmt.Errorf("panic: %v", p)
			}
		}()
		for name, table := range schema.Tables {
			tt := table
			data := modelgen.GetTableTemplateData("gen", name, &tt)
			data.WithEnumTypes(enums)
			data.WithExtendedGen(ext)
			if err := gen.Generate(filepath.Join(dir, "gen", modelgen.FileName(name)), modelgen.NewTableTemplate(), data); err != nil {
				return err
			}
		}
		return gen.Generate(filepath.Join(dir, "gen", "model.go"), modelgen.NewDBTemplate(), modelgen.GetDBTemplateData("gen", schema))
	}
	if known == "" {
		if err := writeAll(!enumTypes, !extended); err != nil {
			fail(err.Error(), "files written", "the generator could not write the package (other options)")
			return
		}
	}
	if err := writeAll(enumTypes, extended); err != nil {
		fail(err.Error(), "files written", "the generator could not write the package")
		return
	}
	for fn, src := range files {
		onDisk, err := os.ReadFile(filepath.Join(dir, "gen", fn))
		if err != nil || !bytes.Equal(onDisk, src) {
			fail(fmt.Sprintf("%s: %d bytes on disk, %d bytes formatted (%v)", fn, len(onDisk), len(src), err), "identical", "the file the generator writes over an earlier generation is not the file it formats")
			return
		}
	}
	os.WriteFile(filepath.Join(dir, "cmd", "main.go"), []byte(c20CheckProgram), 0o644)
	cmd := exec.Command("go", "run", "./cmd")
	cmd.Dir = dir
	cmd.Env = append(os.Environ(), "GOFLAGS=-mod=mod", "GOPROXY=off", "GOSUMDB=off", "GOTOOLCHAIN=local", "CGO_ENABLED=0")
	var out bytes.Buffer
	cmd.Stdout, cmd.Stderr = &out, &out
	done := make(chan error, 1)
	go func() { done <- cmd.Run() }()
	select {
	case err = <-done:
	case <-time.After(5 * time.Minute):
		cmd.Process.Kill()
		fail("timeout", "", "building and running the generated package took more than 5 minutes")
		return
	}
	o := strings.TrimSpace(out.String())
	switch {
	case err != nil:
		// keep the generated sources in the replay
		gs := map[string]string{}
		for fn, src := range files {
			gs[fn] = string(src)
		}
		cs["generated"] = gs
		fail(lastLines(o, 25), "compiles and runs", "the generated package does not compile (or the checking program crashed)")
	case strings.HasPrefix(o, "FAIL"):
		fail(o, "OK", "generated models break a law")
	case strings.HasPrefix(o, "OK"):
		r.Count("generated:ok")
	default:
		fail(lastLines(o, 25), "OK", "unexpected output of the checking program")
	}
}

func lastLines(s string, n int) string {
	l := strings.Split(s, "\n")
	if len(l) > n {
		l = l[len(l)-n:]
	}
	return strings.Join(l, "\n")
}
