package main

// C01, the two orders at once: the goroutine that has received a monitor's reply and is about to apply it, and
// the handler of a notification that followed the reply on the wire, are parked at their pause points and let
// go within nanoseconds of each other. Whichever gets the cache first, the notification must end up applied
// (at once, or held back and applied after the initial contents): afterwards the cache mirrors the database.

import (
	"fmt"
	"time"

	"github.com/ovn-org/libovsdb/ovsdb"
)

func c01Simultaneous(r *Run, n int) {
	rng := r.Rng
	ts := c18Schema()
	rig, err := newRig(ts)
	if err != nil {
		return
	}
	defer rig.Close()
	ctx, cancel := ctxT(120 * time.Second)
	defer cancel()
	writer, _, err := rig.newClient(rig.endpoint())
	if err != nil || writer.Connect(ctx) != nil {
		return
	}
	defer writer.Close()
	cols := map[string][]string{"Pair": nil, "Other": nil}
	for trial := 0; trial < n; trial++ {
		method := monitorMethods[rng.Intn(3)]
		delayOn := rng.Intn(2)
		delay := rng.Intn(400)
		cs := map[string]interface{}{"trial": trial, "method": method, "delayed": []string{"monitor", "handler"}[delayOn], "delay_iterations": delay}
		bad := func() bool {
			a, adb, err := rig.newClient(rig.endpoint())
			if err != nil || a.Connect(ctx) != nil {
				return false
			}
			defer a.Close()
			pp := pauses.arm("monitor.reply-received")
			defer pauses.disarm("monitor.reply-received")
			done := make(chan error, 1)
			go func() {
				mon := monPlan{Method: method, Cols: cols}.monitor()
				_, err := a.Monitor(ctx, mon)
				done <- err
			}()
			if !pp.waitReached(5 * time.Second) {
				pp.Release()
				return false
			}
			upp := pauses.arm("update.before-lock")
			defer pauses.disarm("update.before-lock")
			wd := make(chan error, 1)
			go func() {
				_, err := writer.Transact(ctx, toOvsOps([]OperationJ{{Op: "insert", Table: "Other", UUID: mkUUID(810000 + trial),
					Row: Row{"name": VA(AS(fmt.Sprintf("sim%d", trial))), "n": VA(AI(int64(trial)))}}})...)
				wd <- err
			}()
			if !upp.waitReached(5 * time.Second) {
				pp.Release()
				upp.Release()
				return false
			}
			g := &spinGate{}
			pp.gate, upp.gate = g, g
			if delayOn == 0 {
				pp.delay = delay
			} else {
				upp.delay = delay
			}
			pp.Release()
			upp.Release()
			g.openWhen(2, 2*time.Second)
			r.Case("simultaneous", fmt.Sprint(trial))
			for _, ch := range []chan error{done, wd} {
				select {
				case <-ch:
				case <-time.After(10 * time.Second):
					r.Violation("simultaneous", cs, "no return after 10s", "returns", true,
						"Monitor or Transact did not return after a monitor reply and a notification were processed at the same time", "")
					return true
				}
			}
			var got, want string
			for try := 0; try < 100; try++ {
				want = dumpCanon(projectDump(ts.Spec, rig.im.dump(), cols))
				got = dumpCanon(projectDump(ts.Spec, cacheDump(a, adb, tablesOf(cols)), cols))
				if got == want {
					return false
				}
				time.Sleep(2 * time.Millisecond)
			}
			r.Violation("simultaneous", cs, diffLines(got, want), "cache = database", true,
				"a notification that arrived while the reply of the monitor was being applied is missing from the cache", "")
			return true
		}()
		if bad {
			return
		}
	}
}

var _ = ovsdb.UUIDColumn
