package main

// C14: cache events form a faithful, ordered change log. A monitoring client
// with two (slow) event handlers registered before the monitor is established;
// histories of transactions through the real server.

import (
	"encoding/json"
	"fmt"
	"os"
	"runtime/debug"
	"sort"
	"strings"
	"sync"
	"time"

	"github.com/go-logr/logr"
	"github.com/ovn-org/libovsdb/cache"
	"github.com/ovn-org/libovsdb/model"
	"github.com/ovn-org/libovsdb/ovsdb"
)

func init() { props["C14"] = runC14 }

type EventJ struct {
	Ev    string `json:"ev"`
	Table string `json:"table"`
	UUID  string `json:"uuid"`
	Old   Row    `json:"old,omitempty"`
	New   Row    `json:"new,omitempty"`
}

func (e EventJ) canon() string {
	return fmt.Sprintf("%s %s/%s old=%s new=%s", e.Ev, e.Table, e.UUID, e.Old.Canon(), e.New.Canon())
}

type recorder struct {
	mu     sync.Mutex
	db     *DB
	events []EventJ
	delay  func()
}

func (h *recorder) rec(ev, table string, old, new model.Model) {
	if h.delay != nil {
		h.delay()
	}
	e := EventJ{Ev: ev, Table: table}
	if old != nil {
		e.UUID, e.Old = h.db.RowOf(table, old)
	}
	if new != nil {
		e.UUID, e.New = h.db.RowOf(table, new)
	}
	h.mu.Lock()
	h.events = append(h.events, e)
	h.mu.Unlock()
}

func (h *recorder) handler() cache.EventHandler {
	return &cache.EventHandlerFuncs{
		AddFunc:    func(t string, m model.Model) { h.rec("add", t, nil, m) },
		UpdateFunc: func(t string, o, n model.Model) { h.rec("update", t, o, n) },
		DeleteFunc: func(t string, m model.Model) { h.rec("delete", t, m, nil) },
	}
}

func (h *recorder) snapshot() []EventJ {
	h.mu.Lock()
	defer h.mu.Unlock()
	return append([]EventJ{}, h.events...)
}

func runC14(r *Run) {
	r.Rule = "histories of transactions committed through a real server while a client whose cache has two event handlers (one of them slow, so that events queue up) monitors all or some tables with a random method; after the history and after every few transactions the recorded events are checked: both handlers saw the same sequence; replayed on an empty table set the events reproduce the cache; every event is legal in the state its predecessors produce (add on an absent row, update/delete with the true previous state, updates that change something); the events of each transaction are those of the protocol model; non-trivial = accepted transaction changing a monitored table; distinct by (schema, history prefix)"
	nHist := 30
	if r.Tier == "thorough" {
		nHist = 400
	}
	for h := 0; h < nHist; h++ {
		c14History(r, h)
	}
	for h := 0; h < nHist*4; h++ {
		c14Direct(r, h)
	}
	for h := 0; h < 1+nHist/100; h++ {
		c14Burst(r, h)
	}
	for h := 0; h < 2+nHist/10; h++ {
		c14AfterFailedAttempt(r, h)
	}
}

// c14Burst: a handler that stalls while 6000 row insertions are applied (far fewer than the event buffer of
// 65536 holds): once it resumes, every one of those changes must be delivered, in order
func c14Burst(r *Run, h int) {
	spec := SchemaSpec{Name: "db", Tables: []TableSpec{c05Table}}
	db, err := BuildDB(spec, nil)
	if err != nil {
		panic(err)
	}
	logger := logr.Discard()
	tc, err := cache.NewTableCache(db.Model, nil, &logger)
	if err != nil {
		panic(err)
	}
	release := make(chan struct{})
	var once sync.Once
	rec := &recorder{db: db}
	rec.delay = func() { once.Do(func() { <-release }) }
	tc.AddEventHandler(rec.handler())
	stop, done := make(chan struct{}), make(chan struct{})
	go func() { tc.Run(stop); close(done) }()
	defer func() { close(stop); <-done }()
	batches, per, mods := 12, 500, 0
	if h == 0 {
		// once per run: close to what the buffer holds (65536), inserts and then modifications of rows
		batches, mods = 126, 2000
	}
	cs := map[string]interface{}{"notifications": batches, "inserts_per_notification": per, "modifications_afterwards": mods}
	r.Case("burst", fmt.Sprint(h))
	n := 0
	for b := 0; b < batches; b++ {
		tu := ovsdb.TableUpdate2{}
		for k := 0; k < per; k++ {
			n++
			row := rowToOvs(Row{"name": VA(AS(fmt.Sprintf("r%d", n))), "n": VA(AI(int64(n)))})
			tu[mkUUID(100000+n)] = &ovsdb.RowUpdate2{Insert: &row}
		}
		if err := tc.Populate2(ovsdb.TableUpdates2{"T": tu}); err != nil {
			r.Violation("burst", cs, err.Error(), "applied", true, "applying a notification of 500 inserts failed", "")
			close(release)
			return
		}
	}
	if mods > 0 {
		tu := ovsdb.TableUpdate2{}
		for k := 1; k <= mods; k++ {
			row := rowToOvs(Row{"n": VA(AI(int64(-k)))})
			tu[mkUUID(100000+k)] = &ovsdb.RowUpdate2{Modify: &row}
		}
		if err := tc.Populate2(ovsdb.TableUpdates2{"T": tu}); err != nil {
			r.Violation("burst", cs, err.Error(), "applied", true, "applying a notification of modifications failed", "")
			close(release)
			return
		}
		n += mods
	}
	close(release)
	deadline := time.Now().Add(30 * time.Second)
	for time.Now().Before(deadline) && len(rec.snapshot()) < n {
		time.Sleep(2 * time.Millisecond)
	}
	time.Sleep(20 * time.Millisecond)
	es := rec.snapshot()
	if len(es) != n {
		r.Violation("burst", cs, fmt.Sprintf("%d events delivered", len(es)), fmt.Sprintf("%d changes applied", n), true,
			"events were lost although far fewer were outstanding than the event buffer holds", "")
		return
	}
	st, why := replayEvents(es)
	if why != "" {
		r.Violation("burst", cs, why, "", true, why, "")
		return
	}
	if got := len(tc.Table("T").Rows()); got != len(st) {
		r.Violation("burst", cs, fmt.Sprintf("replay holds %d rows", len(st)), fmt.Sprintf("cache holds %d", got), true, "the events replayed do not reproduce the cache", "")
		return
	}
	if mods > 0 {
		var replayed []DumpRow
		for k, row := range st {
			p := strings.SplitN(k, "/", 2)
			replayed = append(replayed, DumpRow{Table: p[0], UUID: p[1], Row: row})
		}
		sort.Slice(replayed, func(i, j int) bool { return replayed[i].Table+replayed[i].UUID < replayed[j].Table+replayed[j].UUID })
		if a, b := dumpCanon(replayed), dumpCanon(cacheDump(cacheOnly{tc}, db, []string{"T"})); a != b {
			r.Violation("burst", cs, diffLines(a, b), "replayed events = cache", true, "the events replayed do not reproduce the cache (close to the capacity of the event buffer)", "")
		}
	}
}

// cacheOnly gives cacheDump a bare TableCache
type cacheOnly struct{ tc *cache.TableCache }

func (c cacheOnly) Cache() *cache.TableCache { return c.tc }

// c14Direct: notifications fed straight into a TableCache (Populate / Populate2, one row each), valid and
// invalid alike: an insert for a row the cache holds, a modification or a deletion of a row it does not
// hold, an index value another row owns. A notification that returns an error must leave the cache as it
// was, and the event log, replayed, must still reproduce the cache: no event for a change that was not
// applied.
func c14Direct(r *Run, h int) {
	spec := SchemaSpec{Name: "db", Tables: []TableSpec{c05Table}}
	if r.Rng.Intn(2) == 0 {
		spec.Tables[0].Indexes = [][]string{{"name"}}
	}
	db, err := BuildDB(spec, nil)
	if err != nil {
		panic(err)
	}
	logger := logr.Discard()
	tc, err := cache.NewTableCache(db.Model, nil, &logger)
	if err != nil {
		panic(err)
	}
	h1, h2 := &recorder{db: db}, &recorder{db: db}
	h2.delay = func() { time.Sleep(200 * time.Microsecond) }
	tc.AddEventHandler(h1.handler())
	tc.AddEventHandler(h2.handler())
	stop := make(chan struct{})
	done := make(chan struct{})
	go func(s, d chan struct{}) { tc.Run(s); close(d) }(stop, done)
	defer func() { close(stop); <-done }()
	// the dispatcher is stopped and started again as it is around every reconnect of a client: the events
	// still queued belong to changes the cache has applied and are delivered by the next dispatcher
	restarts := 0
	restart := func() {
		close(stop)
		<-done
		stop, done = make(chan struct{}), make(chan struct{})
		go func(s, d chan struct{}) { tc.Run(s); close(d) }(stop, done)
		restarts++
	}
	co := cacheOnly{tc}
	type stepJ struct {
		Kind string `json:"kind"`
		UUID string `json:"uuid"`
		Row  Row    `json:"row,omitempty"`
		Err  string `json:"err,omitempty"`
	}
	var steps []stepJ
	cs := map[string]interface{}{"schema_indexes": spec.Tables[0].Indexes}
	rejected, applied := 0, 0
	ovsRow := func(row Row) ovsdb.Row {
		o := Row{}
		for k, v := range row {
			o[k] = nativeToOvsValue(v)
		}
		return rowToOvs(o)
	}
	n := 12 + r.Rng.Intn(20)
	for i := 0; i < n; i++ {
		u := mkUUID(1 + r.Rng.Intn(5))
		before := cacheDump(co, db, []string{"T"})
		var cur Row
		for _, d := range before {
			if d.UUID == u {
				cur = d.Row
			}
		}
		st := stepJ{UUID: u}
		var perr error
		call := func(f func() error) {
			defer func() {
				if p := recover(); p != nil {
					perr = fmt.Errorf("panic: %v", p)
					if os.Getenv("VERIF_DEBUG") != "" {
						fmt.Fprintln(realStderr, string(debug.Stack()))
					}
				}
			}()
			perr = f()
		}
		multi := false
		switch k := r.Rng.Intn(11); {
		case k == 10:
			// one notification with several rows, one of which the cache cannot take (a modification of a row it
			// does not hold): the rows applied before the error stay, and each of them has its event
			multi = true
			st.Kind = "multi2(with a row that cannot be applied)"
			tu := ovsdb.TableUpdate2{}
			held := map[string]bool{}
			for _, d := range before {
				held[d.UUID] = true
			}
			for j := 1; j <= 5; j++ {
				if id := mkUUID(j); !held[id] {
					row := ovsRow(genC05Row(r.Rng))
					if len(spec.Tables[0].Indexes) > 0 {
						row["name"] = fmt.Sprintf("multi-%d-%d", i, j) // (no index collision among them)
					}
					tu[id] = &ovsdb.RowUpdate2{Insert: &row}
				}
			}
			mod := ovsRow(Row{"n": VA(AI(5))})
			tu[mkUUID(99)] = &ovsdb.RowUpdate2{Modify: &mod}
			call(func() error { return tc.Populate2(ovsdb.TableUpdates2{"T": tu}) })
		case k < 4:
			st.Kind, st.Row = "insert2", genC05Row(r.Rng)
			row := ovsRow(st.Row)
			call(func() error { return tc.Populate2(ovsdb.TableUpdates2{"T": {u: &ovsdb.RowUpdate2{Insert: &row}}}) })
		case k < 6:
			st.Kind = "delete2"
			e := ovsdb.Row{}
			call(func() error { return tc.Populate2(ovsdb.TableUpdates2{"T": {u: &ovsdb.RowUpdate2{Delete: &e}}}) })
		case k < 7:
			st.Kind = "delete1"
			old := ovsRow(genC05Row(r.Rng))
			if cur != nil {
				old = ovsRow(cur)
			}
			call(func() error { return tc.Populate(ovsdb.TableUpdates{"T": {u: &ovsdb.RowUpdate{Old: &old}}}) })
		case k < 8:
			st.Kind, st.Row = "insert1", genC05Row(r.Rng)
			row := ovsRow(st.Row)
			call(func() error { return tc.Populate(ovsdb.TableUpdates{"T": {u: &ovsdb.RowUpdate{New: &row}}}) })
		default:
			st.Kind, st.Row = "update1", genC05Row(r.Rng)
			row := ovsRow(st.Row)
			old := ovsRow(genC05Row(r.Rng))
			if cur != nil {
				old = ovsRow(cur)
				if r.Rng.Intn(2) == 0 {
					// as RFC 7047 has it: "old" holds the former values of the columns that changed, and only those
					changed := Row{}
					for c, v := range cur {
						if nv, ok := st.Row[c]; !ok || nv.Canon() != v.Canon() {
							changed[c] = v
						}
					}
					if len(changed) > 0 {
						old = ovsRow(changed)
						st.Kind = "update1(old = changed columns)"
					}
				}
			}
			call(func() error { return tc.Populate(ovsdb.TableUpdates{"T": {u: &ovsdb.RowUpdate{Old: &old, New: &row}}}) })
		}
		after := cacheDump(co, db, []string{"T"})
		if perr != nil {
			st.Err = perr.Error()
			rejected++
		} else if dumpCanon(before) != dumpCanon(after) {
			applied++
		}
		steps = append(steps, st)
		if r.Rng.Intn(8) == 0 {
			restart()
			steps = append(steps, stepJ{Kind: "dispatcher-restart"})
			r.Count("direct:dispatcher-restart")
		}
		cs["steps"] = steps
		r.Count("direct:" + st.Kind)
		if perr != nil {
			r.Count("direct:rejected")
			if strings.HasPrefix(perr.Error(), "panic") {
				r.Case("direct", "")
				r.Violation("direct", cs, perr.Error(), "", true, "applying a notification panicked", "")
				return
			}
			if dumpCanon(before) != dumpCanon(after) && !multi {
				r.Case("direct", "")
				r.Violation("direct", cs, dumpCanon(after), dumpCanon(before), true, "a notification that was rejected with an error changed the cache", "")
				return
			}
		}
	}
	key := ""
	if rejected > 0 && applied > 1 {
		key = fmt.Sprintf("%d|%s", h, mustJSON(steps))
	}
	r.Case("direct", key)
	// quiescence: both handlers have the same number of events and it no longer grows
	deadline := time.Now().Add(3 * time.Second)
	stable := 0
	last := -1
	for time.Now().Before(deadline) && stable < 10 {
		a, b := len(h1.snapshot()), len(h2.snapshot())
		if a == b && a == last {
			stable++
		} else {
			stable = 0
		}
		last = a
		time.Sleep(time.Millisecond)
	}
	e1, e2 := h1.snapshot(), h2.snapshot()
	var a, b []string
	for _, e := range e1 {
		a = append(a, e.canon())
	}
	for _, e := range e2 {
		b = append(b, e.canon())
	}
	if strings.Join(a, "\n") != strings.Join(b, "\n") {
		r.Violation("direct", cs, strings.Join(a, "\n"), strings.Join(b, "\n"), true, "two handlers of one cache saw different event sequences", "")
		return
	}
	st, why := replayEvents(e1)
	if why != "" {
		r.Violation("direct", cs, strings.Join(a, "\n"), "", true, why, "")
		return
	}
	var replayed []DumpRow
	for k, row := range st {
		p := strings.SplitN(k, "/", 2)
		replayed = append(replayed, DumpRow{Table: p[0], UUID: p[1], Row: row})
	}
	sort.Slice(replayed, func(i, j int) bool { return replayed[i].Table+replayed[i].UUID < replayed[j].Table+replayed[j].UUID })
	got := dumpCanon(cacheDump(co, db, []string{"T"}))
	if rp := dumpCanon(replayed); rp != got {
		r.Violation("direct", cs, diffLines(rp, got), "replayed events = cache", true, "the events replayed on an empty table set do not reproduce the cache (an event was delivered for a change that was not applied, or a change was applied without an event)", "")
	}
}

// replayEvents replays an event log on an empty table set, checking that every event is legal in the state
// its predecessors produce
func replayEvents(es []EventJ) (map[string]Row, string) {
	st := map[string]Row{}
	for i, e := range es {
		k := e.Table + "/" + e.UUID
		cur, ok := st[k]
		switch e.Ev {
		case "add":
			if ok {
				return st, fmt.Sprintf("event %d: add for a row the log already holds (%s)", i, e.canon())
			}
			st[k] = e.New
		case "update":
			if !ok || cur.Canon() != e.Old.Canon() {
				return st, fmt.Sprintf("event %d: the old model of an update is not the previous state of the row (%s)", i, e.canon())
			}
			st[k] = e.New
		case "delete":
			if !ok || cur.Canon() != e.Old.Canon() {
				return st, fmt.Sprintf("event %d: the model of a delete is not the previous state of the row (%s)", i, e.canon())
			}
			delete(st, k)
		}
	}
	return st, ""
}

func c14History(r *Run, h int) {
	ts := genTxnSchema(r.Rng, h%2 == 0)
	rig, err := newRig(ts)
	if err != nil {
		r.Violation("rig", nil, err.Error(), "", false, "cannot start the server", "")
		return
	}
	defer rig.Close()
	ctx, cancel := ctxT(30 * time.Second)
	defer cancel()
	writer, _, err := rig.newClient(rig.endpoint())
	if err != nil || writer.Connect(ctx) != nil {
		r.Violation("rig", nil, fmt.Sprint(err), "", false, "writer cannot connect", "")
		return
	}
	defer writer.Close()
	c, cdb, err := rig.newClient(rig.endpoint())
	if err != nil || c.Connect(ctx) != nil {
		r.Violation("rig", nil, fmt.Sprint(err), "", false, "client cannot connect", "")
		return
	}
	defer c.Close()
	// some state before the monitor exists
	sh := newShadow()
	var txns []TxnJ
	for k := r.Rng.Intn(3); k > 0; k-- {
		txn := genTxn(r.Rng, ts, sh, 1+r.Rng.Intn(4))
		clampWaits(&txn)
		txns = append(txns, txn)
		_, _ = writer.Transact(ctx, toOvsOps(txn.Ops)...)
		sh.load(rig.im.dump())
	}
	pre := len(txns)
	slow := r.Rng.Intn(2) == 0
	h1 := &recorder{db: cdb}
	h2 := &recorder{db: cdb}
	if slow {
		h2.delay = func() { time.Sleep(200 * time.Microsecond) }
	}
	c.Cache().AddEventHandler(h1.handler())
	c.Cache().AddEventHandler(h2.handler())
	plan := monPlan{Method: monitorMethods[r.Rng.Intn(3)], Cols: map[string][]string{}}
	for _, t := range ts.Spec.Tables {
		if r.Rng.Intn(4) != 0 {
			plan.Cols[t.Name] = nil
		}
	}
	if len(plan.Cols) == 0 {
		plan.Cols[ts.Spec.Tables[0].Name] = nil
	}
	cs := map[string]interface{}{"model": ts.modelJSON(), "monitor": plan, "monitor_after": pre}
	regDump := rig.im.dump()
	if _, err := c.Monitor(ctx, plan.monitor()); err != nil {
		cs["txns"] = txns
		r.Violation("events", cs, err.Error(), "", true, "Monitor failed", "")
		return
	}
	trace := []map[string]interface{}{{"a": "start"}, {"a": "reply", "tables": tablesOf(plan.Cols), "db": nonNil(projectDump(ts.Spec, regDump, plan.Cols))}}
	// groups[i] = number of model events up to and including action i
	nT := 4 + r.Rng.Intn(16)
	for ti := 0; ti < nT; ti++ {
		txn := genTxn(r.Rng, ts, sh, 1+r.Rng.Intn(4))
		clampWaits(&txn)
		txns = append(txns, txn)
		cs["txns"] = txns
		before := rig.im.dump()
		res, err := writer.Transact(ctx, toOvsOps(txn.Ops)...)
		accepted := err == nil
		for _, x := range res {
			if x.Error != "" {
				accepted = false
			}
		}
		after := rig.im.dump()
		sh.load(after)
		trace = append(trace, map[string]interface{}{"a": "notif", "tables": tablesOf(plan.Cols),
			"from": nonNil(projectDump(ts.Spec, before, plan.Cols)), "to": nonNil(projectDump(ts.Spec, after, plan.Cols))})
		key := ""
		if accepted {
			for _, o := range txn.Ops {
				if _, ok := plan.Cols[o.Table]; ok && o.Op != "select" && o.Op != "wait" {
					key = fmt.Sprintf("%d|%d", h, ti)
				}
			}
		}
		r.Case("events", key)
		if ti == nT-1 || r.Rng.Intn(3) == 0 {
			if !c14Check(r, cs, c, cdb, rig, plan, trace, h1, h2) {
				return
			}
		}
	}
	if slow {
		r.Count("slow-handler")
	}
	r.Count("method:" + plan.Method)
}

func c14Check(r *Run, cs map[string]interface{}, c interface {
	Cache() *cache.TableCache
}, cdb *DB, rig *Rig, plan monPlan, trace []map[string]interface{}, h1, h2 *recorder) bool {
	// the model says how many events to expect and which
	var mo struct {
		Rows   []DumpRow `json:"rows"`
		Events []EventJ  `json:"events"`
		Failed bool      `json:"failed"`
	}
	if err := r.Mdl.Call(map[string]interface{}{"fn": "clientProtocol", "strict": true, "deferring": true, "actions": trace}, &mo); err != nil {
		r.Violation("events-model", cs, "", err.Error(), false, "model driver failed", "")
		return false
	}
	// quiescence: the dispatcher has delivered what was queued
	deadline := time.Now().Add(5 * time.Second)
	for time.Now().Before(deadline) {
		if len(h1.snapshot()) >= len(mo.Events) && len(h2.snapshot()) >= len(mo.Events) {
			break
		}
		time.Sleep(time.Millisecond)
	}
	time.Sleep(2 * time.Millisecond)
	e1, e2 := h1.snapshot(), h2.snapshot()
	canonAll := func(es []EventJ) []string {
		out := make([]string, len(es))
		for i, e := range es {
			out[i] = e.canon()
		}
		return out
	}
	a, b := canonAll(e1), canonAll(e2)
	r.Count(fmt.Sprintf("events:%d", len(a)/10*10))
	fail := func(stream, impl, want, why string, pf bool) bool {
		r.Violation(stream, cs, impl, want, pf, why, "")
		return false
	}
	if strings.Join(a, "\n") != strings.Join(b, "\n") {
		return fail("events", strings.Join(a, "\n"), strings.Join(b, "\n"), "two handlers of one cache saw different event sequences", true)
	}
	// replay on an empty table set, checking legality
	st := map[string]Row{}
	for i, e := range e1 {
		k := e.Table + "/" + e.UUID
		cur, ok := st[k]
		switch e.Ev {
		case "add":
			if ok {
				return fail("events", e.canon(), "row absent before an add", fmt.Sprintf("event %d: add for a row the log already holds", i), true)
			}
			st[k] = e.New
		case "update":
			if !ok || cur.Canon() != e.Old.Canon() {
				return fail("events", e.canon(), "old = "+cur.Canon(), fmt.Sprintf("event %d: the old model of an update is not the previous state of the row", i), true)
			}
			if e.Old.Canon() == e.New.Canon() {
				return fail("events", e.canon(), "a change", fmt.Sprintf("event %d: update event without a change", i), true)
			}
			st[k] = e.New
		case "delete":
			if !ok || cur.Canon() != e.Old.Canon() {
				return fail("events", e.canon(), "old = "+cur.Canon(), fmt.Sprintf("event %d: the model of a delete is not the previous state of the row", i), true)
			}
			delete(st, k)
		}
	}
	var replayed []DumpRow
	for k, row := range st {
		p := strings.SplitN(k, "/", 2)
		replayed = append(replayed, DumpRow{Table: p[0], UUID: p[1], Row: row})
	}
	got := dumpCanon(cacheDump(c, cdb, tablesOf(plan.Cols)))
	if rp := dumpCanon(replayed); rp != got {
		return fail("events", diffLines(rp, got), "replayed events = cache", "the events replayed on an empty table set do not reproduce the cache", true)
	}
	// the model's events, compared per notification as sets (rows of one notification are applied in map order)
	me := canonAll(mo.Events)
	x, y := append([]string{}, a...), append([]string{}, me...)
	sort.Strings(x)
	sort.Strings(y)
	if strings.Join(x, "\n") != strings.Join(y, "\n") {
		bs, _ := json.Marshal(mo.Events)
		return fail("events-model", strings.Join(a, "\n"), string(bs), "the events differ from the protocol model's", false)
	}
	return true
}

var _ = ovsdb.MonitorRPC
