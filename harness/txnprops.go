package main

// Transaction-level properties: C02 (atomicity), C04 (referential integrity),
// C06 (unique indexes), with the shared history engine of txn.go.

import (
	"fmt"
	"sort"
	"strings"
)

func init() {
	props["C02"] = func(r *Run) { runTxnProp(r, "C02") }
	props["C04"] = func(r *Run) { runTxnProp(r, "C04") }
	props["C06"] = func(r *Run) { runTxnProp(r, "C06") }
}

// ---- independent oracles on a database dump

func colRefTargets(c ColSpec, v *Value) (out [][3]string) { // (table, uuid, "strong"/"weak")
	add := func(tbl, typ string, a Atom) {
		if tbl == "" || a.K != 'u' {
			return
		}
		if typ == "" {
			typ = "strong"
		}
		out = append(out, [3]string{tbl, a.S, typ})
	}
	if v == nil {
		return
	}
	switch v.K {
	case 'a':
		if v.A.K == 'u' && v.A.S != "" && v.A.S != "00000000-0000-0000-0000-000000000000" {
			add(c.RefTable, c.RefType, v.A)
		}
	case 'o':
		if v.O != nil {
			add(c.RefTable, c.RefType, *v.O)
		}
	case 'S':
		for _, a := range v.S {
			add(c.RefTable, c.RefType, a)
		}
	case 'M':
		for _, p := range v.M {
			add(c.RefTable, c.RefType, p[0])
			add(c.ValRefTable, c.ValRefType, p[1])
		}
	}
	return
}

// integrityOracle: C04's three clauses on a dump, from scratch.
func integrityOracle(ts TxnSchema, d []DumpRow) string {
	exists := map[string]bool{}
	for _, r := range d {
		exists[r.Table+"/"+r.UUID] = true
	}
	referenced := map[string]bool{}
	for _, r := range d {
		t := ts.Spec.Table(r.Table)
		for _, c := range t.Cols {
			for _, ref := range colRefTargets(c, r.Row[c.Name]) {
				if !exists[ref[0]+"/"+ref[1]] {
					return fmt.Sprintf("%s reference from %s/%s column %s to missing row %s/%s", ref[2], r.Table, r.UUID, c.Name, ref[0], ref[1])
				}
				if ref[2] == "strong" {
					referenced[ref[0]+"/"+ref[1]] = true
				}
			}
		}
	}
	allNonRoot := true
	for _, t := range ts.Spec.Tables {
		if t.IsRoot {
			allNonRoot = false
		}
	}
	for _, r := range d {
		t := ts.Spec.Table(r.Table)
		if !t.IsRoot && !allNonRoot && !referenced[r.Table+"/"+r.UUID] {
			return fmt.Sprintf("row %s/%s of a non-root table is not strongly referenced", r.Table, r.UUID)
		}
	}
	return ""
}

// weakMinOracle: a committed transaction must not leave a weak-reference column with fewer elements than
// its minimum by pruning references to rows it removed (it has to be rejected instead). A column the
// transaction's own operations wrote to is left alone: its cardinality is C03's and the schema's business.
func weakMinOracle(ts TxnSchema, before, after []DumpRow, txn TxnJ) string {
	written := map[string]bool{}
	for _, o := range txn.Ops {
		for c := range o.Row {
			written[o.Table+"."+c] = true
		}
		for _, m := range o.Mutations {
			written[o.Table+"."+m.Col] = true
		}
	}
	count := func(v *Value) int {
		if v == nil {
			return 0
		}
		switch v.K {
		case 'S':
			return len(v.S)
		case 'M':
			return len(v.M)
		case 'o':
			if v.O != nil {
				return 1
			}
			return 0
		}
		return 1
	}
	prev := map[string]DumpRow{}
	for _, r := range before {
		prev[r.Table+"/"+r.UUID] = r
	}
	for _, r := range after {
		t := ts.Spec.Table(r.Table)
		p, had := prev[r.Table+"/"+r.UUID]
		if !had {
			// a row inserted by this transaction (and written by nothing else in it): what the insert gave met
			// the minimum, what is stored does not
			var ins *OperationJ
			writers := 0
			for i := range txn.Ops {
				o := &txn.Ops[i]
				if o.Table == r.Table && (o.Op == "update" || o.Op == "mutate") {
					writers++
				}
				if o.Op == "insert" && o.Table == r.Table && o.UUID == r.UUID {
					ins = o
				}
			}
			if ins == nil || writers > 0 {
				continue
			}
			for _, c := range t.Cols {
				weak := (c.RefTable != "" && c.RefType == "weak") || (c.ValRefTable != "" && c.ValRefType == "weak")
				if !weak || c.Type.Min < 1 || c.Type.Kind == "opt" {
					continue
				}
				given := ins.Row[c.Name]
				if given != nil && count(given) >= c.Type.Min && count(r.Row[c.Name]) < c.Type.Min {
					return fmt.Sprintf("column %s of the inserted row %s/%s holds %d element(s) after the commit, its minimum is %d (the insert gave %d)",
						c.Name, r.Table, r.UUID, count(r.Row[c.Name]), c.Type.Min, count(given))
				}
			}
			continue
		}
		for _, c := range t.Cols {
			weak := (c.RefTable != "" && c.RefType == "weak") || (c.ValRefTable != "" && c.ValRefType == "weak")
			if !weak || c.Type.Min < 1 || c.Type.Kind == "opt" || written[r.Table+"."+c.Name] {
				continue
			}
			if count(r.Row[c.Name]) < c.Type.Min && count(p.Row[c.Name]) >= c.Type.Min {
				return fmt.Sprintf("column %s of row %s/%s holds %d element(s) after the commit, its minimum is %d (it held %d before; the transaction did not write to it)",
					c.Name, r.Table, r.UUID, count(r.Row[c.Name]), c.Type.Min, count(p.Row[c.Name]))
			}
		}
	}
	return ""
}

// refsFromDump: the reference index a database holding exactly these rows must have.
func refsFromDump(ts TxnSchema, d []DumpRow) []RefJ {
	idx := map[string]*RefJ{}
	for _, r := range d {
		t := ts.Spec.Table(r.Table)
		for _, c := range t.Cols {
			v := r.Row[c.Name]
			if v == nil {
				continue
			}
			add := func(tbl string, a Atom, isVal bool) {
				if tbl == "" || a.K != 'u' {
					return
				}
				k := fmt.Sprintf("%s|%s|%s|%v|%s", tbl, r.Table, c.Name, isVal, a.S)
				if idx[k] == nil {
					idx[k] = &RefJ{ToTable: tbl, FromTable: r.Table, FromColumn: c.Name, FromValue: isVal, To: a.S}
				}
				for _, f := range idx[k].From {
					if f == r.UUID {
						return
					}
				}
				idx[k].From = append(idx[k].From, r.UUID)
			}
			switch v.K {
			case 'a':
				if v.A.K == 'u' && v.A.S != "" && v.A.S != "00000000-0000-0000-0000-000000000000" {
					add(c.RefTable, v.A, false)
				}
			case 'o':
				if v.O != nil {
					add(c.RefTable, *v.O, false)
				}
			case 'S':
				for _, a := range v.S {
					add(c.RefTable, a, false)
				}
			case 'M':
				for _, p := range v.M {
					add(c.RefTable, p[0], false)
					add(c.ValRefTable, p[1], true)
				}
			}
		}
	}
	var out []RefJ
	for _, r := range idx {
		out = append(out, *r)
	}
	return out
}

// uniquenessOracle: C06 on a dump.
func uniquenessOracle(ts TxnSchema, d []DumpRow) string {
	for _, t := range ts.Spec.Tables {
		for _, idx := range t.Indexes {
			seen := map[string]string{}
			for _, r := range d {
				if r.Table != t.Name {
					continue
				}
				var parts []string
				for _, c := range idx {
					parts = append(parts, r.Row[c].Canon())
				}
				k := strings.Join(parts, "|")
				if o, ok := seen[k]; ok {
					return fmt.Sprintf("rows %s and %s of table %s agree on index %v (%s)", o, r.UUID, t.Name, idx, k)
				}
				seen[k] = r.UUID
			}
		}
	}
	return ""
}

func updatesCanon(m map[string]ModelUpdateJ) string {
	var ks []string
	for k := range m {
		ks = append(ks, k)
	}
	sort.Strings(ks)
	var parts []string
	for _, k := range ks {
		parts = append(parts, k+" => "+m[k].canon())
	}
	return strings.Join(parts, "\n")
}

func hasErr(rs []ResultJ) bool {
	for _, r := range rs {
		if r.Error != nil {
			return true
		}
	}
	return false
}

// replayOracle runs a history from scratch on the implementation and returns the
// first oracle failure of the given property ("" if none).
func replayOracle(ts TxnSchema, txns []TxnJ, prop string) string {
	im := newImplDB(ts)
	known := map[string][]string{}
	for _, txn := range txns {
		before := im.dump()
		out := im.transact(txn.Ops, nil)
		after := im.dump()
		if out.Panic != "" {
			return "panic: " + out.Panic
		}
		if out.CommitErr != "" {
			return "commit error"
		}
		for _, d := range after {
			dup := false
			for _, u := range known[d.Table] {
				if u == d.UUID {
					dup = true
				}
			}
			if !dup {
				known[d.Table] = append(known[d.Table], d.UUID)
			}
		}
		switch prop {
		case "C02":
			if hasErr(out.Results) && dumpCanon(before) != dumpCanon(after) {
				return "a failed transaction changed the database"
			}
			if hasErr(out.Results) && refsCanon(im.refs(known)) != refsCanon(refsFromDump(ts, after)) {
				return "a failed transaction changed the reference index"
			}
		case "C04":
			if why := integrityOracle(ts, after); why != "" {
				return why
			}
			if refsCanon(im.refs(known)) != refsCanon(refsFromDump(ts, after)) {
				return "reference index differs from the references recomputed from the stored rows"
			}
		case "C06":
			if why := uniquenessOracle(ts, after); why != "" {
				return why
			}
		}
	}
	return ""
}

// shrinkHistory removes transactions, operations, mutations and row columns
// while the oracle still fails.
func shrinkHistory(ts TxnSchema, txns []TxnJ, prop string) []TxnJ {
	fails := func(t []TxnJ) bool { return replayOracle(ts, t, prop) != "" }
	cp := func(t []TxnJ) []TxnJ {
		var out []TxnJ
		for _, x := range t {
			out = append(out, TxnJ{Ops: append([]OperationJ{}, x.Ops...)})
		}
		return out
	}
	changed := true
	for changed {
		changed = false
		for i := range txns {
			c := append(cp(txns[:i]), cp(txns[i+1:])...)
			if fails(c) {
				txns, changed = c, true
				break
			}
		}
		if changed {
			continue
		}
	outer:
		for i := range txns {
			for j := range txns[i].Ops {
				c := cp(txns)
				c[i].Ops = append(append([]OperationJ{}, c[i].Ops[:j]...), c[i].Ops[j+1:]...)
				if fails(c) {
					txns, changed = c, true
					break outer
				}
				// drop row columns / mutations
				op := txns[i].Ops[j]
				for col := range op.Row {
					c := cp(txns)
					nr := op.Row.Clone()
					delete(nr, col)
					c[i].Ops[j].Row = nr
					if fails(c) {
						txns, changed = c, true
						break outer
					}
				}
				for k := range op.Mutations {
					if len(op.Mutations) < 2 {
						break
					}
					c := cp(txns)
					c[i].Ops[j].Mutations = append(append([]MutationJ{}, op.Mutations[:k]...), op.Mutations[k+1:]...)
					if fails(c) {
						txns, changed = c, true
						break outer
					}
				}
			}
		}
	}
	return txns
}

func runTxnProp(r *Run, prop string) {
	allowNoRoot = true
	nHist := map[string]int{"C02": 250, "C04": 300, "C06": 300}[prop]
	if r.Tier == "thorough" {
		nHist *= 12
	}
	switch prop {
	case "C02":
		r.Rule = "histories of 4-10 transactions (1-5 operations each: insert/select/update/mutate/delete/wait over generated schemas with references and indexes); non-trivial = transaction that fails (an operation error at some position, or a commit-time rejection) after at least one effective operation; distinct by (schema, history prefix, transaction)"
	case "C04":
		r.Rule = "histories over schemas with root/non-root tables and strong/weak references in set, optional, map-key and map-value positions (self references and cycles allowed); non-trivial = committed transaction whose reference processing deletes a row, prunes a weak reference or is rejected for integrity; distinct by (schema, history prefix, transaction)"
	case "C06":
		r.Rule = "histories over schemas with single and multi-column indexes, values drawn from 5 names x 4 integers so collisions are frequent; non-trivial = transaction that is rejected for a duplicate, or committed after touching an indexed column of >= 2 rows; distinct by (schema, history prefix, transaction)"
	}
	// the same histories through a real server: its decision to notify and commit
	serverTxnStream(r, prop, nHist/10)
	for h := 0; h < nHist; h++ {
		ts := genTxnSchema(r.Rng, prop != "C06" || r.Rng.Intn(2) == 0)
		im := newImplDB(ts)
		sh := newShadow()
		var txns []TxnJ
		type implTxn struct {
			out         TxnOutcome
			before, aft []DumpRow
			refs        []RefJ
		}
		var impl []implTxn
		nT := 4 + r.Rng.Intn(7)
		bad := false
		known := map[string][]string{}
		for ti := 0; ti < nT && !bad; ti++ {
			txn := genTxn(r.Rng, ts, sh, 1+r.Rng.Intn(5))
			before := im.dump()
			refsBefore := refsCanon(im.refs(known))
			out := im.transact(txn.Ops, nil)
			after := im.dump()
			refsAfterFail := refsCanon(im.refs(known))
			txns = append(txns, txn)
			cs := map[string]interface{}{"model": ts.modelJSON(), "txns": txns}
			for _, d := range after {
				found := false
				for _, u := range known[d.Table] {
					if u == d.UUID {
						found = true
					}
				}
				if !found {
					known[d.Table] = append(known[d.Table], d.UUID)
				}
			}
			refs := im.refs(known)
			impl = append(impl, implTxn{out, before, after, refs})
			sh.load(after)
			failed := hasErr(out.Results)
			nontrivial := ""
			key := fmt.Sprintf("%d|%d|%s", h, ti, mustJSON(txn))
			r.Count(fmt.Sprintf("ops:%d", len(txn.Ops)))
			for _, res := range out.Results {
				if res.Error != nil {
					r.Count("err:" + classOf(*res.Error))
				}
			}
			if out.Panic != "" {
				r.Case("txn", "")
				r.Violation("txn", cs, "panic: "+out.Panic, "", true, "Transact panicked", "")
				bad = true
				break
			}
			if out.CommitErr != "" {
				r.Case("txn", "")
				r.Violation("txn", cs, "commit error: "+out.CommitErr, "", true, "an accepted transaction could not be committed", "")
				bad = true
				break
			}
			// --- C02: all-or-nothing and reply shape
			if failed {
				if dumpCanon(before) != dumpCanon(after) {
					r.Case("txn", key)
					if prop == "C02" {
						r.Violation("txn", cs, dumpCanon(after), dumpCanon(before), true, "a failed transaction changed the database", "")
						bad = true
						break
					}
				}
				if prop == "C02" && refsBefore != refsAfterFail {
					r.Case("txn", key)
					cs["txns"] = shrinkHistory(ts, txns, prop)
					cs["shrunk"] = true
					r.Violation("txn", cs, refsAfterFail, refsBefore, true, "a failed transaction changed the database's reference index (later transactions will not behave as if it had never been submitted)", "")
					bad = true
					break
				}
				// reply shape
				n := len(txn.Ops)
				last := out.Results[len(out.Results)-1]
				okShape := last.Error != nil && (out.NResults == n || (out.NResults == n+1 && len(out.Results) == n+1))
				for _, res := range out.Results[:len(out.Results)-1] {
					if res.Error != nil {
						okShape = false
					}
				}
				if prop == "C02" && !okShape {
					r.Violation("txn", cs, fmt.Sprintf("results=%d non-nil=%d ops=%d", out.NResults, len(out.Results), n), "", true, "reply shape of a failed transaction is wrong", "")
					bad = true
					break
				}
				if prop == "C02" && len(out.Results) > 1 {
					nontrivial = key
				}
			}
			// --- C04: integrity after every commit + reference index exact
			if why := integrityOracle(ts, after); why != "" && prop == "C04" {
				r.Case("txn", key)
				cs["txns"] = shrinkHistory(ts, txns, prop)
				cs["shrunk"] = true
				r.Violation("txn", cs, dumpCanon(after), "", true, "referential integrity violated after commit: "+why, "")
				bad = true
				break
			}
			if prop == "C04" && !failed {
				if why := weakMinOracle(ts, before, after, txn); why != "" {
					r.Case("txn", key)
					cs["txns"] = shrinkHistory(ts, txns, prop)
					cs["shrunk"] = true
					r.Violation("txn", cs, dumpCanon(after), "rejected with a constraint violation", true, "pruning weak references left a column below its minimum: "+why, "")
					bad = true
					break
				}
			}
			if prop == "C04" {
				if got, want := refsCanon(refs), refsCanon(refsFromDump(ts, after)); got != want {
					r.Case("txn", key)
					cs["txns"] = shrinkHistory(ts, txns, prop)
					cs["shrunk"] = true
					r.Violation("txn", cs, got, want, true, "the database's reference index differs from the references recomputed from the stored rows (decisions would depend on history)", "")
					bad = true
					break
				}
			}
			// --- C06: a transaction is rejected for a duplicate only if its final state has one. The final state
			// it would have had is computed by the RFC reference interpreter (which knows nothing of indexes);
			// when the reference accepts the transaction and the resulting rows are duplicate-free, a
			// constraint violation was not called for (transient duplicates are to be accepted).
			if prop == "C06" && failed && classOf(*out.Results[len(out.Results)-1].Error) == "constraint violation" && out.Panic == "" &&
				strings.Contains(out.Results[len(out.Results)-1].Details, "identical") { // rejected by an index check
				acc := make([]bool, len(txns))
				for k := range impl {
					acc[k] = !hasErr(impl[k].out.Results)
				}
				acc[len(txns)-1] = true // speculatively
				var spec []rfcOut
				if err := r.Mdl.Call(map[string]interface{}{"fn": "rfcHistory", "model": ts.modelJSON(), "txns": txns, "accepted": acc}, &spec); err == nil && len(spec) == len(txns) {
					sp := spec[len(spec)-1]
					if !sp.Rejected && !sp.Skipped && uniquenessOracle(ts, sp.Rows) == "" {
						r.Case("txn", key)
						cs["txns"] = shrinkHistory(ts, txns, prop)
						cs["shrunk"] = true
						r.Violation("txn", cs, "constraint violation: "+out.Results[len(out.Results)-1].Details, dumpCanon(sp.Rows), true,
							"a transaction whose final state holds no duplicate index values (and which the RFC reference accepts) was rejected with a constraint violation", "")
						bad = true
						break
					}
				}
			}
			// --- C06: uniqueness after every commit
			if why := uniquenessOracle(ts, after); why != "" && prop == "C06" {
				r.Case("txn", key)
				cs["txns"] = shrinkHistory(ts, txns, prop)
				cs["shrunk"] = true
				r.Violation("txn", cs, dumpCanon(after), "", true, "duplicate index values after commit: "+why, "")
				bad = true
				break
			}
			if prop == "C04" && (failed && classOf(*out.Results[len(out.Results)-1].Error) != "other" || len(out.Updates) > countOpRows(txn)) {
				nontrivial = key
			}
			if prop == "C06" && ((failed && classOf(*out.Results[len(out.Results)-1].Error) == "constraint violation") || (!failed && len(out.Updates) >= 2)) {
				nontrivial = key
			}
			r.Case("txn", nontrivial)
			if h < 2 && ti < 2 {
				r.Sample(map[string]interface{}{"schema_tables": len(ts.Spec.Tables), "txn": txn})
			}
		}
		if bad {
			continue
		}
		// --- C04: the reference processing does exactly what it has to: after every commit the rows are those
		// the RFC reference ends with (operations applied, rows nobody refers to strongly collected, dangling
		// weak references removed, and nothing else)
		if prop == "C04" {
			acc := make([]bool, len(impl))
			for j := range impl {
				acc[j] = impl[j].out.Committed && !hasErr(impl[j].out.Results)
			}
			var spec []rfcOut
			if err := r.Mdl.Call(map[string]interface{}{"fn": "rfcHistory", "model": ts.modelJSON(), "txns": txns[:len(impl)], "accepted": acc}, &spec); err == nil && len(spec) == len(impl) {
				stopped := false
				for ti := range impl {
					if !acc[ti] || spec[ti].Skipped {
						continue
					}
					if spec[ti].Rejected {
						break // (the reference and the implementation part ways: C03's business)
					}
					if a, b := dumpCanon(impl[ti].aft), dumpCanon(spec[ti].Rows); a != b {
						r.Violation("txn", map[string]interface{}{"model": ts.modelJSON(), "txns": txns[:ti+1]}, diffLines(a, b), "the rows the RFC reference ends with", true,
							fmt.Sprintf("transaction %d: after the commit the rows are not the previous rows changed by the operations, minus the rows nobody holds and exactly the dangling weak references", ti), "")
						stopped = true
						break
					}
				}
				if stopped {
					continue
				}
			}
		}
		// --- correspondence with the model for the whole history
		mo, err := modelHistory(r, ts, txns)
		cs := map[string]interface{}{"model": ts.modelJSON(), "txns": txns}
		if err != nil {
			r.Violation("history", cs, "", err.Error(), false, "model driver failed", "")
			continue
		}
		for ti := range impl {
			it, mt := impl[ti], mo[ti]
			csT := map[string]interface{}{"model": ts.modelJSON(), "txns": txns[:ti+1]}
			var ir, mr []string
			for _, x := range it.out.Results {
				ir = append(ir, x.canon())
			}
			for _, x := range mt.Results {
				mr = append(mr, x.canon())
			}
			if prop == "C02" && !hasErr(it.out.Results) && hasErr(mt.Results) {
				// the implementation carried out a transaction the model says has a failing operation: ask the
				// reference. If it cannot run the transaction either, an operation that fails was answered with
				// successful results and its transaction committed.
				acc := make([]bool, ti+1)
				for j := 0; j <= ti; j++ {
					acc[j] = impl[j].out.Committed
				}
				var spec []rfcOut
				if err := r.Mdl.Call(map[string]interface{}{"fn": "rfcHistory", "model": ts.modelJSON(), "txns": txns[:ti+1], "accepted": acc}, &spec); err == nil && len(spec) == ti+1 && spec[ti].Rejected {
					r.Violation("txn", csT, strings.Join(ir, " ; "), strings.Join(mr, " ; "), true,
						fmt.Sprintf("transaction %d: an operation that cannot be carried out (the RFC reference rejects the transaction) was answered with successful results and the transaction was committed", ti), "")
					break
				}
			}
			if strings.Join(ir, " ; ") != strings.Join(mr, " ; ") {
				// oracle: does the property itself fail? (C06/C04/C02 oracles passed above) -> correspondence only
				r.Violation("history", csT, strings.Join(ir, " ; "), strings.Join(mr, " ; "), false, fmt.Sprintf("transaction %d: results of model and implementation differ", ti), "")
				break
			}
			if it.out.Committed != mt.Committed {
				r.Violation("history", csT, it.out.Committed, mt.Committed, false, fmt.Sprintf("transaction %d: commit decision differs", ti), "")
				break
			}
			mu := map[string]ModelUpdateJ{}
			for _, u := range mt.Updates {
				mu[u.Table+"/"+u.UUID] = u.Update
			}
			if a, b := updatesCanon(it.out.Updates), updatesCanon(mu); a != b {
				r.Violation("history", csT, a, b, false, fmt.Sprintf("transaction %d: aggregated updates differ", ti), "")
				break
			}
			if a, b := dumpCanon(it.aft), dumpCanon(mt.Rows); a != b {
				r.Violation("history", csT, a, b, false, fmt.Sprintf("transaction %d: database contents differ", ti), "")
				break
			}
			if a, b := refsCanon(it.refs), refsCanon(mt.Refs); a != b && prop == "C04" {
				r.Violation("history", csT, a, b, false, fmt.Sprintf("transaction %d: reference index differs", ti), "")
				break
			}
		}
	}
}

func countOpRows(t TxnJ) int {
	n := 0
	for _, o := range t.Ops {
		if o.Op == "insert" {
			n++
		}
	}
	return n + 1
}
