package main

// C15: named UUIDs resolve consistently within a transaction.

import (
	"fmt"
	"sort"
	"strings"

	"github.com/ovn-org/libovsdb/ovsdb"
)

func init() { props["C15"] = runC15 }

var c15Schema = SchemaSpec{Name: "db", Tables: []TableSpec{
	{Name: "T", IsRoot: true, Cols: []ColSpec{
		{Name: "name", Type: ColType{Kind: "atom", Key: "string", Min: 1, Max: 1}},
		{Name: "label", Type: ColType{Kind: "opt", Key: "string", Min: 0, Max: 1}},
		{Name: "tags", Type: ColType{Kind: "set", Key: "string", Min: 0, Max: -1}},
		{Name: "smap", Type: ColType{Kind: "map", Key: "string", Val: "string", Min: 0, Max: -1}},
		{Name: "one", Type: ColType{Kind: "atom", Key: "uuid", Min: 1, Max: 1}},
		{Name: "opt", Type: ColType{Kind: "opt", Key: "uuid", Min: 0, Max: 1}},
		{Name: "many", Type: ColType{Kind: "set", Key: "uuid", Min: 0, Max: -1}},
		{Name: "kmap", Type: ColType{Kind: "map", Key: "uuid", Val: "string", Min: 0, Max: -1}},
		{Name: "vmap", Type: ColType{Kind: "map", Key: "string", Val: "uuid", Min: 0, Max: -1}},
		{Name: "kvmap", Type: ColType{Kind: "map", Key: "uuid", Val: "uuid", Min: 0, Max: -1}},
	}},
}}

// "a","b" collide with string data; the last name is as long as a UUID (36 characters) without being one
var c15Names = []string{"rowA", "rowB", "a", "b", "port_of_vm_0123456789_0123456789_abc"}

func c15ExpandExpected(t TableSpec, col string, v *Value, m map[string]string) *Value {
	if col == "_uuid" {
		out := cloneValue(v)
		if out.K == 'a' && out.A.K == 'u' {
			if r, ok := m[out.A.S]; ok {
				out.A.S = r
			}
		}
		return out
	}
	c := t.Col(col)
	sub := func(a Atom, isUUID bool) Atom {
		if isUUID && a.K == 'u' {
			if r, ok := m[a.S]; ok {
				return AU(r)
			}
		}
		return a
	}
	out := cloneValue(v)
	keyU := c.Type.Key == "uuid"
	valU := c.Type.Val == "uuid"
	switch out.K {
	case 'a':
		out.A = sub(out.A, keyU)
	case 'S':
		for i := range out.S {
			out.S[i] = sub(out.S[i], keyU)
		}
	case 'M':
		for i := range out.M {
			out.M[i][0] = sub(out.M[i][0], keyU)
			out.M[i][1] = sub(out.M[i][1], valU && c.Type.Kind == "map")
		}
	}
	return out
}

func c15GenValue(r *Run, c ColSpec, names []string) *Value {
	rng := r.Rng
	atom := func(t string) Atom {
		switch t {
		case "uuid":
			if len(names) > 0 && rng.Intn(3) != 0 {
				return AU(names[rng.Intn(len(names))])
			}
			return AU(mkUUID(500 + rng.Intn(3)))
		default:
			return AS([]string{"a", "b", "rowA", "x", ""}[rng.Intn(5)])
		}
	}
	ct := c.Type
	switch ct.Kind {
	case "atom":
		return VA(atom(ct.Key))
	case "opt":
		if rng.Intn(4) == 0 {
			return &Value{K: 'S', S: []Atom{}}
		}
		if rng.Intn(2) == 0 {
			return VA(atom(ct.Key)) // a single value may stand for a one-element set
		}
		return VS(atom(ct.Key))
	case "set":
		seen := map[string]bool{}
		out := []Atom{}
		for i := rng.Intn(4); i > 0; i-- {
			a := atom(ct.Key)
			if !seen[a.Key()] {
				seen[a.Key()] = true
				out = append(out, a)
			}
		}
		return &Value{K: 'S', S: out}
	default:
		seen := map[string]bool{}
		out := [][2]Atom{}
		for i := 1 + rng.Intn(3); i > 0; i-- {
			a := atom(ct.Key)
			if !seen[a.Key()] {
				seen[a.Key()] = true
				out = append(out, [2]Atom{a, atom(ct.Val)})
			}
		}
		return &Value{K: 'M', M: out}
	}
}

func opsCanonC15(ops []OperationJ) string {
	var parts []string
	for _, o := range ops {
		var ws, ms, rs []string
		for _, w := range o.Where {
			ws = append(ws, w.Col+w.Fn+w.Val.Canon())
		}
		for _, m := range o.Mutations {
			ms = append(ms, m.Col+m.Mutator+m.Val.Canon())
		}
		for _, row := range o.Rows {
			rs = append(rs, row.Canon())
		}
		parts = append(parts, fmt.Sprintf("%s uuid=%s name=%s row=%s where=%s mut=%s rows=%s", o.Op, o.UUID, o.UUIDName, rowCanonOrNil(o.Row),
			strings.Join(ws, ","), strings.Join(ms, ","), strings.Join(rs, ",")))
	}
	return strings.Join(parts, "\n")
}

func opFromOvs(o ovsdb.Operation) OperationJ {
	out := OperationJ{Op: o.Op, Table: o.Table, UUID: o.UUID, UUIDName: o.UUIDName, Row: Row{}}
	for k, v := range o.Row {
		out.Row[k] = fromOvs(v)
	}
	for _, w := range o.Where {
		out.Where = append(out.Where, WCondJ{Col: w.Column, Fn: string(w.Function), Val: fromOvs(w.Value)})
	}
	for _, m := range o.Mutations {
		out.Mutations = append(out.Mutations, MutationJ{Col: m.Column, Mutator: string(m.Mutator), Val: fromOvs(m.Value)})
	}
	for _, row := range o.Rows {
		r := Row{}
		for k, v := range row {
			r[k] = fromOvs(v)
		}
		out.Rows = append(out.Rows, r)
	}
	return out
}

func runC15(r *Run) {
	c15Expand(r)
	c15Create(r)
	c15Reclaim(r)
}

func c15Expand(r *Run) {
	r.Rule = "transactions with 1-4 inserts under symbolic names (some names equal to string data, some with explicit UUIDs, rarely two inserts claiming one name), names used in every uuid-typed position (scalar, optional, set, map key, map value, key and value) of rows, conditions and mutations of operations before and after the defining insert; non-trivial = transaction in which a declared name occurs in a uuid-typed position of another operation; distinct by operation list"
	n := 1200
	if r.Tier == "thorough" {
		n = 15000
	}
	t := c15Schema.Tables[0]
	ts := TxnSchema{Spec: c15Schema, Specs: map[string][]ISpec{"T": {}}}
	for i := 0; i < n; i++ {
		rng := r.Rng
		// declare names
		nIns := 1 + rng.Intn(4)
		var names []string
		var ops []OperationJ
		declared := map[string]string{}
		conflict := false
		for k := 0; k < nIns; k++ {
			name := c15Names[rng.Intn(len(c15Names))]
			op := OperationJ{Op: "insert", Table: "T", UUIDName: name, Row: Row{}}
			if rng.Intn(2) == 0 {
				op.UUID = mkUUID(100 + k + 10*rng.Intn(2))
			} else {
				op.UUID = mkUUID(300 + i%50*4 + k) // what the server would generate; made explicit for determinism
			}
			if u, ok := declared[name]; ok {
				if u != op.UUID {
					conflict = true
				}
			} else {
				declared[name] = op.UUID
			}
			names = append(names, name)
			ops = append(ops, op)
		}
		// fill rows and add other operations using the names
		uses := false
		for k := range ops {
			for _, c := range t.Cols {
				if rng.Intn(3) == 0 {
					v := c15GenValue(r, c, names)
					ops[k].Row[c.Name] = v
				}
			}
		}
		extra := rng.Intn(4)
		for k := 0; k < extra; k++ {
			c := t.Cols[4+rng.Intn(6)]
			var op OperationJ
			switch rng.Intn(3) {
			case 0:
				op = OperationJ{Op: "update", Table: "T", Row: Row{c.Name: c15GenValue(r, c, names)},
					Where: []WCondJ{{Col: "_uuid", Fn: "==", Val: VA(AU(names[rng.Intn(len(names))]))}}}
			case 1:
				cc := t.Cols[6+rng.Intn(4)] // set or map
				v := c15GenValue(r, cc, names)
				op = OperationJ{Op: "mutate", Table: "T", Mutations: []MutationJ{{Col: cc.Name, Mutator: []string{"insert", "delete"}[rng.Intn(2)], Val: v}},
					Where: []WCondJ{{Col: c.Name, Fn: "includes", Val: c15GenValue(r, c, names)}}}
				if cc.Type.Kind == "map" && op.Mutations[0].Mutator == "delete" && rng.Intn(2) == 0 {
					ks := []Atom{}
					for _, p := range v.M {
						ks = append(ks, p[0])
					}
					op.Mutations[0].Val = &Value{K: 'S', S: ks}
				}
			default:
				op = OperationJ{Op: "select", Table: "T", Where: []WCondJ{{Col: c.Name, Fn: "==", Val: c15GenValue(r, c, names)}}}
				if rng.Intn(2) == 0 {
					// a wait: names in its conditions and in the rows it expects
					zero := 0
					op = OperationJ{Op: "wait", Table: "T", Timeout: &zero, Until: []string{"==", "!="}[rng.Intn(2)], Columns: []string{c.Name},
						Where: []WCondJ{{Col: "_uuid", Fn: "==", Val: VA(AU(names[rng.Intn(len(names))]))}},
						Rows:  []Row{{c.Name: c15GenValue(r, c, names)}}}
				}
			}
			// before or after the defining inserts
			pos := rng.Intn(len(ops) + 1)
			ops = append(ops[:pos], append([]OperationJ{op}, ops[pos:]...)...)
		}
		for _, o := range ops {
			check := func(col string, v *Value) {
				exp := c15ExpandExpected(t, col, v, declared)
				if exp.Canon() != v.Canon() {
					uses = true
				}
			}
			for c, v := range o.Row {
				check(c, v)
			}
			for _, w := range o.Where {
				check(w.Col, w.Val)
			}
			for _, m := range o.Mutations {
				check(m.Col, m.Val)
			}
			for _, row := range o.Rows {
				for c, v := range row {
					check(c, v)
				}
			}
		}
		key := ""
		if uses {
			key = mustJSON(ops)
		}
		r.Case("expand", key)
		r.Count(fmt.Sprintf("inserts:%d", nIns))
		if conflict {
			r.Count("conflicting-names")
		}
		if i < 3 {
			r.Sample(ops)
		}
		cs := map[string]interface{}{"ops": ops}
		// implementation
		var oo []ovsdb.Operation
		for _, o := range ops {
			oo = append(oo, o.toOvs())
		}
		im := newImplDB(ts)
		var implOps []OperationJ
		implErr := ""
		func() {
			defer func() {
				if p := recover(); p != nil {
					implErr = fmt.Sprintf("panic: %v", p)
				}
			}()
			res, err := ovsdb.ExpandNamedUUIDs(oo, &im.db.Schema)
			if err != nil {
				implErr = "err"
				return
			}
			for _, o := range res {
				implOps = append(implOps, opFromOvs(o))
			}
		}()
		// oracle
		if conflict {
			if implErr == "" {
				r.Violation("expand", cs, opsCanonC15(implOps), "error", true, "two inserts claim one name with different UUIDs but the transaction is not rejected", "")
				continue
			}
		} else {
			if implErr != "" {
				r.Violation("expand", cs, implErr, "", true, "expansion of a well-formed transaction failed", "")
				continue
			}
			var want []OperationJ
			seen := map[string]bool{}
			for _, o := range ops {
				w := OperationJ{Op: o.Op, Table: o.Table, UUID: o.UUID, Row: Row{}}
				if o.Op == "insert" {
					w.UUID = declared[o.UUIDName]
					seen[o.UUIDName] = true
				}
				for c, v := range o.Row {
					w.Row[c] = c15ExpandExpected(t, c, v, declared)
				}
				for _, c := range o.Where {
					w.Where = append(w.Where, WCondJ{Col: c.Col, Fn: c.Fn, Val: c15ExpandExpected(t, c.Col, c.Val, declared)})
				}
				for _, m := range o.Mutations {
					w.Mutations = append(w.Mutations, MutationJ{Col: m.Col, Mutator: m.Mutator, Val: c15ExpandExpected(t, m.Col, m.Val, declared)})
				}
				for _, row := range o.Rows {
					wr := Row{}
					for c, v := range row {
						wr[c] = c15ExpandExpected(t, c, v, declared)
					}
					w.Rows = append(w.Rows, wr)
				}
				want = append(want, w)
			}
			if a, b := opsCanonC15(implOps), opsCanonC15(want); a != b {
				r.Violation("expand", cs, a, b, true, "a declared name in a uuid-typed position was not replaced by the UUID of the insert (or text in a non-uuid position was changed)", "")
				continue
			}
		}
		// model
		var mres struct {
			Err *string `json:"err"`
			Ops []struct {
				Op, Table, UUID string
				UUIDName        string  `json:"uuid-name"`
				Row             Row     `json:"row"`
				Rows            []Row   `json:"rows"`
				Where           []Value `json:"where"`
				Mutations       []Value `json:"mutations"`
			} `json:"ops"`
		}
		if err := r.Mdl.Call(map[string]interface{}{"fn": "expandNamedUUIDs", "model": ts.modelJSON(), "ops": ops}, &mres); err != nil {
			r.Violation("expand", cs, "", err.Error(), false, "model driver failed", "")
			continue
		}
		merr := ""
		if mres.Err != nil {
			merr = "err"
		}
		if (implErr != "") != (merr != "") {
			r.Violation("expand", cs, implErr, merr, false, "model and implementation disagree on rejecting the transaction", "")
			continue
		}
		if implErr == "" {
			var mops []OperationJ
			for k, o := range mres.Ops {
				mo := OperationJ{Op: o.Op, Table: o.Table, UUID: o.UUID, UUIDName: o.UUIDName, Row: o.Row, Rows: o.Rows}
				for wi := range o.Where {
					v := o.Where[wi]
					mo.Where = append(mo.Where, WCondJ{Col: ops[k].Where[wi].Col, Fn: ops[k].Where[wi].Fn, Val: &v})
				}
				for mi := range o.Mutations {
					v := o.Mutations[mi]
					mo.Mutations = append(mo.Mutations, MutationJ{Col: ops[k].Mutations[mi].Col, Mutator: ops[k].Mutations[mi].Mutator, Val: &v})
				}
				mops = append(mops, mo)
			}
			if a, b := opsCanonC15(implOps), opsCanonC15(mops); a != b {
				r.Violation("expand", cs, a, b, false, "model and implementation disagree on the expanded operations", "")
				continue
			}
		}
		// end to end: the UUID reported for an insert is the UUID the row is stored under
		if !conflict && i%4 == 0 {
			out := im.transact(ops, nil)
			if out.Panic != "" {
				r.Violation("transact", cs, "panic: "+out.Panic, "", true, "Transact panicked", "")
				continue
			}
			if !hasErr(out.Results) {
				d := im.dump()
				stored := map[string]bool{}
				for _, row := range d {
					stored[row.UUID] = true
				}
				var reported []string
				for k, o := range ops {
					if o.Op == "insert" && k < len(out.Results) {
						reported = append(reported, out.Results[k].UUID)
						if out.Results[k].UUID != declared[o.UUIDName] {
							r.Violation("transact", cs, out.Results[k].UUID, declared[o.UUIDName], true, "the UUID reported for a named insert is not the UUID the name resolves to", "")
						}
					}
				}
				// what is stored for the inserted rows: every name replaced (checked when no later operation of
				// the transaction rewrites the rows)
				rewritten := false
				for _, o := range ops {
					if o.Op == "update" || o.Op == "mutate" || o.Op == "delete" {
						rewritten = true
					}
				}
				if !rewritten {
					byUUID := map[string]DumpRow{}
					for _, row := range d {
						byUUID[row.UUID] = row
					}
					for k, o := range ops {
						if o.Op != "insert" || k >= len(out.Results) {
							continue
						}
						st, ok := byUUID[out.Results[k].UUID]
						if !ok {
							continue
						}
						for cn, v := range o.Row {
							col := t.Col(cn)
							if col == nil {
								continue
							}
							want := ovsToNativeValue(col.Type, c15ExpandExpected(t, cn, v, declared))
							if want == nil {
								continue
							}
							if got := st.Row[cn]; got == nil || sortedValue(got).Canon() != sortedValue(want).Canon() {
								gc := "absent"
								if got != nil {
									gc = sortedValue(got).Canon()
								}
								r.Violation("transact", cs, fmt.Sprintf("row %s column %s = %s", st.UUID, cn, gc), sortedValue(want).Canon(), true,
									"a name used in a uuid-typed column of an inserted row is not stored as the UUID of the row inserted under that name", "")
								break
							}
						}
					}
				}
				sort.Strings(reported)
				for _, u := range reported {
					if !stored[u] {
						r.Violation("transact", cs, reported, dumpCanon(d), true, "the UUID reported for an insert is not the UUID the row is stored under", "")
						break
					}
				}
			}
		}
	}
}

// c15Reclaim: a name that is claimed again. A row is inserted under a name (with an explicit uuid), sometimes
// deleted and inserted again under the same name and uuid (which the expansion accepts: one name, one uuid);
// the operations that follow address "the row inserted under that name" in their conditions. They must reach
// the row that is there: the update counts one row, the select returns it, the committed row carries the change.
func c15Reclaim(r *Run) {
	rng := r.Rng
	ts := TxnSchema{Spec: c15Schema, Specs: map[string][]ISpec{"T": {}}}
	n := 60
	if r.Tier == "thorough" {
		n = 600
	}
	for i := 0; i < n; i++ {
		name := c15Names[rng.Intn(len(c15Names))]
		u := mkUUID(7000 + i)
		byName := []WCondJ{{Col: "_uuid", Fn: "==", Val: VA(AU(name))}}
		again := rng.Intn(3)
		ops := []OperationJ{{Op: "insert", Table: "T", UUIDName: name, UUID: u, Row: Row{"name": VA(AS("v0"))}}}
		want := []string{"uuid"}
		for k := 1; k <= again; k++ {
			ops = append(ops, OperationJ{Op: "delete", Table: "T", Where: byName},
				OperationJ{Op: "insert", Table: "T", UUIDName: name, UUID: u, Row: Row{"name": VA(AS(fmt.Sprintf("v%d", k)))}})
			want = append(want, "count=1", "uuid")
		}
		label := fmt.Sprintf("l%d", i)
		col, exp := "label", VO(&Atom{K: 's', S: label}).Canon()
		switch rng.Intn(2) {
		case 0:
			ops = append(ops, OperationJ{Op: "update", Table: "T", Where: byName, Row: Row{"label": VS(AS(label))}})
		default:
			col, exp = "tags", VS(AS(label)).Canon()
			ops = append(ops, OperationJ{Op: "mutate", Table: "T", Where: byName, Mutations: []MutationJ{{Col: "tags", Mutator: "insert", Val: VS(AS(label))}}})
		}
		ops = append(ops, OperationJ{Op: "select", Table: "T", Where: byName, Columns: []string{"name", "label", "tags"}})
		want = append(want, "count=1", "rows=1")
		cs := map[string]interface{}{"ops": ops}
		r.Case("reclaim", mustJSON(ops))
		r.Count(fmt.Sprintf("reclaim:again=%d", again))
		im := newImplDB(ts)
		out := im.transact(ops, nil)
		var got []string
		for _, x := range out.Results {
			switch {
			case x.Error != nil:
				got = append(got, "error:"+*x.Error)
			case x.UUID != "":
				got = append(got, "uuid")
			case x.Rows != nil:
				got = append(got, fmt.Sprintf("rows=%d", len(x.Rows)))
			default:
				got = append(got, fmt.Sprintf("count=%d", x.Count))
			}
		}
		if out.Panic != "" || strings.Join(got, " ") != strings.Join(want, " ") {
			r.Violation("reclaim", cs, out.Panic+strings.Join(got, " "), strings.Join(want, " "), true,
				"operations that address the row inserted under a name do not reach the row that holds the name", "")
			continue
		}
		stored := ""
		for _, d := range im.dump() {
			if d.UUID == u && d.Row[col] != nil && d.Row["name"] != nil {
				stored = d.Row["name"].Canon() + " " + d.Row[col].Canon()
			}
		}
		if exp := VA(AS(fmt.Sprintf("v%d", again))).Canon() + " " + exp; stored != exp {
			r.Violation("reclaim", cs, stored, exp, true, "the row committed under the name does not carry the change addressed to it by name", "")
		}
	}
}
