package main

// C16: the client's own reason to drop the connection. Several notifications that cannot be applied to the
// cache arrive in one burst (the peer wrote them back to back, they are all in the client's read buffer when
// the first one is handled). The client disconnects in order to resynchronise; the notifications behind the
// first are still dispatched and fail too. It must come back all the same: reconnect, restart its monitor,
// and hold the database's contents again.

import (
	"encoding/json"
	"fmt"
	"strings"
	"sync"
	"time"

	"github.com/cenkalti/backoff/v4"
	"github.com/ovn-org/libovsdb/client"
)

func c16ErrorBurst(r *Run, h int) {
	rng := r.Rng
	ts := c18Schema()
	rig, err := newRig(ts)
	if err != nil {
		return
	}
	defer rig.Close()
	px, err := newProxy(rig.sock)
	if err != nil {
		return
	}
	defer px.Close()
	ctx, cancel := ctxT(60 * time.Second)
	defer cancel()
	row := pairRow(0)
	row["key"] = VA(AS("r1"))
	rig.im.transact([]OperationJ{{Op: "insert", Table: "Pair", UUID: mkUUID(1), Row: row}}, nil)
	writer, _, err := rig.newClient(rig.endpoint())
	if err != nil || writer.Connect(ctx) != nil {
		return
	}
	defer writer.Close()
	method := monitorMethods[1+rng.Intn(2)] // (update2 notifications)
	copies := 2 + rng.Intn(4)
	var mu sync.Mutex
	armed := false
	px.rewrite = func(session int, toClient bool, raw json.RawMessage) json.RawMessage {
		if !toClient {
			return raw
		}
		var msg struct {
			Method string            `json:"method"`
			Params []json.RawMessage `json:"params"`
		}
		if json.Unmarshal(raw, &msg) != nil || msg.Method != "update2" || len(msg.Params) != 2 {
			return raw
		}
		mu.Lock()
		defer mu.Unlock()
		if !armed {
			return raw
		}
		armed = false
		one := fmt.Sprintf(`{"method":"update2","params":[%s,{"Pair":{"%s":{"modify":{"key":"zz"}}}}],"id":null}`, msg.Params[0], mkUUID(4343))
		return json.RawMessage(strings.Repeat(one, copies))
	}
	opts := []client.Option{client.WithReconnect(2*time.Second, backoff.NewConstantBackOff(2*time.Millisecond))}
	a, adb, err := rig.newClient(px.endpoint(), opts...)
	if err != nil || a.Connect(ctx) != nil {
		return
	}
	defer a.Close()
	if _, err := a.Monitor(ctx, &client.Monitor{Method: method, Tables: []client.TableMonitor{{Table: "Pair"}}, LastTransactionID: "00000000-0000-0000-0000-000000000000"}); err != nil {
		return
	}
	cs := map[string]interface{}{"run": h, "method": method, "copies": copies}
	r.Case("error-burst", fmt.Sprint(h, method, copies))
	for round := 0; round < 2; round++ {
		mu.Lock()
		armed = true
		mu.Unlock()
		k := int64(100*h + round + 1)
		wctx, wc := ctxT(5 * time.Second)
		_, _ = writer.Transact(wctx, OperationJ{Op: "update", Table: "Pair", Where: byUUID(mkUUID(1)), Row: pairRow(k)}.toOvs())
		wc()
		ok := false
		deadline := time.Now().Add(8 * time.Second)
		for time.Now().Before(deadline) && !ok {
			m := adb.NewModel("Pair", mkUUID(1), nil)
			gctx, gc := ctxT(time.Second)
			done := make(chan error, 1)
			go func() { done <- a.Get(gctx, m) }()
			select {
			case err := <-done:
				if err == nil {
					_, rowNow := adb.RowOf("Pair", m)
					ok = rowNow["n"] != nil && rowNow["n"].K == 'a' && rowNow["n"].A.I == k
				}
			case <-time.After(4 * time.Second):
			}
			gc()
			if !ok {
				time.Sleep(5 * time.Millisecond)
			}
		}
		if !ok {
			cs["round"] = round
			r.Violation("error-burst", cs, fmt.Sprintf("Connected()=%v, the committed change is not in the cache after 8s", a.Connected()), "the committed change in the cache", true,
				"after a burst of notifications that could not be applied the client does not reconnect and resynchronise", "")
			return
		}
	}
}

// c16SilentSchema: a reconnect attempt that meets a peer which accepts the connection and then says nothing to
// the schema request (the connection stays open). The attempt has a time limit; the client gives it up, tries
// again, and ends up with the database's contents.
func c16SilentSchema(r *Run, h int) {
	rng := r.Rng
	ts := c18Schema()
	rig, err := newRig(ts)
	if err != nil {
		return
	}
	defer rig.Close()
	px, err := newProxy(rig.sock)
	if err != nil {
		return
	}
	defer px.Close()
	ctx, cancel := ctxT(60 * time.Second)
	defer cancel()
	row := pairRow(0)
	row["key"] = VA(AS("r1"))
	rig.im.transact([]OperationJ{{Op: "insert", Table: "Pair", UUID: mkUUID(1), Row: row}}, nil)
	writer, _, err := rig.newClient(rig.endpoint())
	if err != nil || writer.Connect(ctx) != nil {
		return
	}
	defer writer.Close()
	var mu sync.Mutex
	silentFrom, silentN := -1, 1+rng.Intn(2) // the sessions whose schema request gets no answer
	swallow := []string{"get_schema", "monitor_cond_since", "monitor_cond", "monitor"}[rng.Intn(2)*rng.Intn(4)]
	px.rewrite = func(session int, toClient bool, raw json.RawMessage) json.RawMessage {
		if toClient {
			return raw
		}
		mu.Lock()
		quiet := silentFrom >= 0 && session >= silentFrom && session < silentFrom+silentN
		mu.Unlock()
		var msg struct {
			Method string `json:"method"`
		}
		if quiet && json.Unmarshal(raw, &msg) == nil && msg.Method == swallow {
			return nil
		}
		return raw
	}
	timeout := time.Duration(200+rng.Intn(300)) * time.Millisecond
	a, adb, err := rig.newClient(px.endpoint(), client.WithReconnect(timeout, backoff.NewConstantBackOff(3*time.Millisecond)))
	if err != nil || a.Connect(ctx) != nil {
		return
	}
	defer a.Close()
	method := monitorMethods[rng.Intn(3)]
	if _, err := a.Monitor(ctx, &client.Monitor{Method: method, Tables: []client.TableMonitor{{Table: "Pair"}}, LastTransactionID: "00000000-0000-0000-0000-000000000000"}); err != nil {
		return
	}
	cs := map[string]interface{}{"run": h, "method": method, "attempt_timeout_ms": timeout.Milliseconds(), "unanswered": swallow, "silent_attempts": silentN}
	r.Case("silent-attempt", fmt.Sprint(h, method, swallow, silentN))
	mu.Lock()
	silentFrom = px.sessionCount()
	mu.Unlock()
	px.cutNow()
	k := int64(100*h + 1)
	wctx, wc := ctxT(5 * time.Second)
	_, _ = writer.Transact(wctx, OperationJ{Op: "update", Table: "Pair", Where: byUUID(mkUUID(1)), Row: pairRow(k)}.toOvs())
	wc()
	ok := false
	for deadline := time.Now().Add(10 * time.Second); time.Now().Before(deadline) && !ok; {
		m := adb.NewModel("Pair", mkUUID(1), nil)
		gctx, gc := ctxT(time.Second)
		done := make(chan error, 1)
		go func() { done <- a.Get(gctx, m) }()
		select {
		case err := <-done:
			if err == nil {
				_, rowNow := adb.RowOf("Pair", m)
				ok = rowNow["n"] != nil && rowNow["n"].K == 'a' && rowNow["n"].A.I == k
			}
		case <-time.After(4 * time.Second):
		}
		gc()
		if !ok {
			time.Sleep(5 * time.Millisecond)
		}
	}
	if !ok {
		r.Violation("silent-attempt", cs, fmt.Sprintf("the committed change is not in the cache after 10s (sessions opened: %d)", px.sessionCount()), "the committed change in the cache", true,
			"a reconnect attempt that got no answer was never given up: the client does not come back although the server answers new connections", "")
	}
}
