package main

// C14 across a reconnect attempt that fails half-way: the client has two monitors and an event handler that
// takes its time. Its connection is cut; the first reconnect attempt gets as far as restarting the first
// monitor and is cut again (it fails at the second monitor); the next attempt succeeds. The events delivered
// afterwards, for a run of inserts, updates and deletes that keeps several events outstanding, still form a
// legal log in commit order: one dispatcher delivers them, whatever became of the failed attempt.

import (
	"fmt"
	"time"

	"github.com/cenkalti/backoff/v4"
	"github.com/ovn-org/libovsdb/client"
)

func c14AfterFailedAttempt(r *Run, h int) {
	rng := r.Rng
	ts := c18Schema()
	rig, err := newRig(ts)
	if err != nil {
		return
	}
	defer rig.Close()
	px, err := newProxy(rig.sock)
	if err != nil {
		return
	}
	defer px.Close()
	ctx, cancel := ctxT(60 * time.Second)
	defer cancel()
	writer, _, err := rig.newClient(rig.endpoint())
	if err != nil || writer.Connect(ctx) != nil {
		return
	}
	defer writer.Close()
	a, adb, err := rig.newClient(px.endpoint(), client.WithReconnect(2*time.Second, backoff.NewConstantBackOff(3*time.Millisecond)))
	if err != nil || a.Connect(ctx) != nil {
		return
	}
	defer a.Close()
	rec := &recorder{db: adb, delay: func() { time.Sleep(time.Duration(200+rng.Intn(600)) * time.Microsecond) }}
	a.Cache().AddEventHandler(rec.handler())
	plans := []monPlan{{Method: monitorMethods[rng.Intn(3)], Cols: map[string][]string{"Pair": nil}},
		{Method: monitorMethods[rng.Intn(3)], Cols: map[string][]string{"Other": nil}}}
	cols := map[string][]string{"Pair": nil, "Other": nil}
	cs := map[string]interface{}{"run": h, "monitors": plans, "schedule": "failed reconnect attempt, then a run of events"}
	for _, p := range plans {
		if _, err := a.Monitor(ctx, p.monitor()); err != nil {
			return
		}
	}
	other := func(i int, n int64) Row { return Row{"name": VA(AS(fmt.Sprintf("e%d", i))), "n": VA(AI(n))} }
	_, _ = writer.Transact(ctx, OperationJ{Op: "insert", Table: "Other", UUID: mkUUID(900), Row: other(900, 0)}.toOvs())
	r.Case("after-failed-attempt", fmt.Sprint(h))
	pp := pauses.arm("monitor.reply-received")
	px.cutNow() // the client starts reconnecting
	if !pp.waitReached(10 * time.Second) {
		pauses.disarm("monitor.reply-received")
		return
	}
	px.block(true)
	px.cutNow()
	pp.Release()
	time.Sleep(20 * time.Millisecond) // the first attempt fails at its second monitor
	px.block(false)
	ok := false
	for deadline := time.Now().Add(8 * time.Second); time.Now().Before(deadline); {
		if a.Connected() {
			ectx, ec := ctxT(time.Second)
			err := a.Echo(ectx)
			ec()
			if err == nil {
				ok = true
				break
			}
		}
		time.Sleep(3 * time.Millisecond)
	}
	if !ok {
		return // (C16's business)
	}
	// quiescence: the cache holds the database
	for try := 0; try < 400; try++ {
		if dumpCanon(projectDump(ts.Spec, rig.im.dump(), cols)) == dumpCanon(projectDump(ts.Spec, cacheDump(a, adb, tablesOf(cols)), cols)) {
			break
		}
		time.Sleep(5 * time.Millisecond)
	}
	drained := func() int {
		last, same := -1, 0
		for try := 0; try < 4000 && same < 40; try++ {
			n := len(rec.snapshot())
			if n == last {
				same++
			} else {
				last, same = n, 0
			}
			time.Sleep(2 * time.Millisecond)
		}
		return last
	}
	from := drained()
	st := map[string]Row{}
	for _, d := range cacheDump(a, adb, tablesOf(cols)) {
		st[d.Table+"/"+d.UUID] = d.Row
	}
	// a run of events, several of them outstanding at any time
	nRows := 10 + rng.Intn(10)
	for i := 0; i < nRows; i++ {
		u := mkUUID(1000 + i)
		_, _ = writer.Transact(ctx, OperationJ{Op: "insert", Table: "Other", UUID: u, Row: other(i, 0)}.toOvs())
		for k := int64(1); k <= 4; k++ {
			_, _ = writer.Transact(ctx, OperationJ{Op: "update", Table: "Other", Where: byUUID(u), Row: Row{"n": VA(AI(k))}}.toOvs())
		}
		_, _ = writer.Transact(ctx, OperationJ{Op: "delete", Table: "Other", Where: byUUID(u)}.toOvs())
	}
	drained()
	evs := rec.snapshot()[from:]
	cs["events"] = len(evs)
	for i, e := range evs {
		k := e.Table + "/" + e.UUID
		cur, okc := st[k]
		bad := ""
		switch e.Ev {
		case "add":
			if okc {
				bad = "add for a row the log already holds"
			}
			st[k] = e.New
		case "update":
			if !okc || cur.Canon() != e.Old.Canon() {
				bad = "the old model of an update is not the previous state of the row"
			}
			st[k] = e.New
		case "delete":
			if !okc || cur.Canon() != e.Old.Canon() {
				bad = "the model of a delete is not the previous state of the row"
			}
			delete(st, k)
		}
		if bad != "" {
			r.Violation("after-failed-attempt", cs, fmt.Sprintf("event %d of %d: %s (%s)", i, len(evs), bad, e.canon()), "a legal log in commit order", true,
				"after a reconnect attempt that failed half-way the events no longer reach the handler in the order of the changes", "")
			return
		}
	}
	if want := 6 * nRows; len(evs) != want {
		r.Violation("after-failed-attempt", cs, fmt.Sprintf("%d events", len(evs)), fmt.Sprintf("%d events (insert, four updates, delete per row)", want), true,
			"after a reconnect attempt that failed half-way events are missing or delivered twice", "")
	}
}
