//go:build verif

package main

import (
	"encoding/json"
	"fmt"
	"math/rand"
	"strings"
	"sync"
	"time"

	"github.com/cenkalti/backoff/v4"
	"github.com/ovn-org/libovsdb/client"
)

// c19Notify: what the server sends is input too. A real client monitors a real server through a proxy that
// puts, in front of every update / update2 / update3 notification, a structurally corrupted copy of it
// (parameters dropped or of another type, an unknown monitor or database in the cookie, the table updates
// truncated, wrapped or retyped, the body of one notification kind under the name of another). The client
// may reject the copy, drop the connection and come back; its process must survive (a panic in the
// connection's goroutine takes the process down: the case in flight is recorded for that event) and its
// calls must keep returning.
func c19Notify(r *Run) {
	n := 12
	if r.Tier == "thorough" {
		n = 40
	}
	for i := 0; i < n; i++ {
		c19NotifyOne(r, i)
	}
}

type notifyCase struct {
	Model    interface{} `json:"model"`
	Method   string      `json:"monitor_method"`
	Txns     []TxnJ      `json:"transactions"`
	Injected []string    `json:"injected_notifications"`

	CorruptReplyOf string `json:"corrupt_first_reply_of"`
	ReplyCorrupted bool   `json:"reply_corrupted"`
}

func corruptNotification(rng *rand.Rand, raw json.RawMessage) []byte {
	var msg map[string]interface{}
	if json.Unmarshal(raw, &msg) != nil {
		return nil
	}
	method, _ := msg["method"].(string)
	params, _ := msg["params"].([]interface{})
	switch rng.Intn(10) {
	case 0:
		msg["params"] = params[:rng.Intn(len(params))]
	case 1:
		msg["params"] = []interface{}{nil, "x", 1.0, map[string]interface{}{}, []interface{}{}}[rng.Intn(5)]
	case 2, 5, 6: // a monitor / database the client does not know
		if len(params) > 0 {
			params[0] = []interface{}{[]interface{}{"db", "nosuchmonitor"}, "db", map[string]interface{}{"databaseName": "db"}, map[string]interface{}{"databaseName": "db", "id": "nosuchmonitor"},
				map[string]interface{}{"databaseName": "db", "id": "nosuchmonitor"}, map[string]interface{}{"databaseName": "nosuchdb", "id": "x"}}[rng.Intn(6)]
		}
	case 3, 7: // the body of one kind under the name of another
		others := []string{"update", "update2", "update3"}
		msg["method"] = others[rng.Intn(3)]
		if msg["method"] == method {
			msg["params"] = append(params, "extra")
		}
	case 4:
		if len(params) > 0 {
			k := rng.Intn(len(params))
			params[k] = corrupt(rng, params[k])
		}
	default:
		msg["params"] = corrupt(rng, msg["params"])
	}
	out, err := json.Marshal(msg)
	if err != nil {
		return nil
	}
	return out
}

func c19NotifyOne(r *Run, i int) {
	rng := r.Rng
	ts := genTxnSchema(rng, i%2 == 0)
	rig, err := newRig(ts)
	if err != nil {
		return
	}
	defer rig.Close()
	px, err := newProxy(rig.sock)
	if err != nil {
		return
	}
	defer px.Close()
	cs := &notifyCase{Model: ts.modelJSON(), Method: monitorMethods[rng.Intn(3)]}
	var mu sync.Mutex
	pendingReq := map[string]string{}
	cs.CorruptReplyOf = []string{"", "", "monitor", "monitor", "list_dbs", "get_schema", "get_schema", "transact", "echo"}[rng.Intn(9)]
	lrng := rand.New(rand.NewSource(rng.Int63()))
	px.rewrite = func(session int, toClient bool, raw json.RawMessage) json.RawMessage {
		var head struct {
			Method string          `json:"method"`
			ID     json.RawMessage `json:"id"`
			Result json.RawMessage `json:"result"`
		}
		if json.Unmarshal(raw, &head) != nil {
			return raw
		}
		mu.Lock()
		defer mu.Unlock()
		if !toClient {
			if head.Method != "" && len(head.ID) > 0 && string(head.ID) != "null" {
				kind := head.Method
				if strings.HasPrefix(kind, "monitor") && kind != "monitor_cancel" {
					kind = "monitor"
				}
				pendingReq[string(head.ID)] = kind
			}
			return raw
		}
		if kind, ok := pendingReq[string(head.ID)]; ok && head.Method == "" {
			// the reply to a request of the client: its contents are input too (the first reply of the kind
			// chosen for this case is corrupted)
			delete(pendingReq, string(head.ID))
			if !cs.ReplyCorrupted && kind == cs.CorruptReplyOf && len(head.Result) > 0 && string(head.Result) != "null" {
				var m map[string]interface{}
				if json.Unmarshal(raw, &m) == nil {
					m["result"] = corrupt(lrng, m["result"])
					if out, err := json.Marshal(m); err == nil {
						cs.ReplyCorrupted = true
						cs.Injected = append(cs.Injected, string(out))
						r.Count("notify:reply:" + kind)
						r.InFlight("notify", cs, "the client's process died on a "+kind+" reply from the server")
						return out
					}
				}
			}
			return raw
		}
		if head.Method != "update" && head.Method != "update2" && head.Method != "update3" {
			return raw
		}
		src := raw
		if head.Method == "update2" && cs.Method == "monitor_cond_since" && lrng.Intn(3) != 0 {
			// what a server that keeps transaction ids sends for this method: [cookie, last-txn-id, updates]
			var m map[string]interface{}
			if json.Unmarshal(raw, &m) == nil {
				if ps, ok := m["params"].([]interface{}); ok && len(ps) == 2 {
					m["method"], m["params"] = "update3", []interface{}{ps[0], mkUUID(70000 + lrng.Intn(1000)), ps[1]}
					head.Method = "update3"
					src, _ = json.Marshal(m)
				}
			}
		}
		bad := corruptNotification(lrng, src)
		if bad == nil {
			return raw
		}
		cs.Injected = append(cs.Injected, string(bad))
		r.Count("notify:" + head.Method)
		r.InFlight("notify", cs, "the client's process died on a notification from the server")
		return append(append(append([]byte{}, bad...), '\n'), raw...)
	}
	ctx, cancel := ctxT(60 * time.Second)
	defer cancel()
	writer, _, err := rig.newClient(rig.endpoint())
	if err != nil || writer.Connect(ctx) != nil {
		return
	}
	defer writer.Close()
	a, adb, err := rig.newClient(px.endpoint(), client.WithReconnect(2*time.Second, backoff.NewConstantBackOff(3*time.Millisecond)))
	if err != nil {
		return
	}
	defer a.Close()
	for try := 0; ; try++ {
		cctx, cc := ctxT(5 * time.Second)
		err := a.Connect(cctx)
		cc()
		if err == nil {
			break
		}
		if try == 3 {
			return
		}
	}
	var tms []client.TableMonitor
	for _, t := range ts.Spec.Tables {
		tms = append(tms, client.TableMonitor{Table: t.Name})
	}
	for try := 0; ; try++ {
		mctx, mc := ctxT(5 * time.Second)
		_, err := a.Monitor(mctx, &client.Monitor{Method: cs.Method, Tables: tms, LastTransactionID: "00000000-0000-0000-0000-000000000000"})
		mc()
		if err == nil {
			break
		}
		if try == 3 {
			return
		}
		time.Sleep(20 * time.Millisecond)
	}
	sh := newShadow()
	for k := 0; k < 6+rng.Intn(6); k++ {
		txn := genTxn(rng, ts, sh, 1+rng.Intn(4))
		clampWaits(&txn)
		cs.Txns = append(cs.Txns, txn)
		who := writer
		if k%3 == 2 {
			who = a // the client's own transactions and echoes have replies as well
			ectx, ec := ctxT(2 * time.Second)
			_ = a.Echo(ectx)
			ec()
		}
		tctx, tc := ctxT(3 * time.Second)
		_, _ = who.Transact(tctx, toOvsOps(txn.Ops)...)
		tc()
		sh.load(rig.im.dump())
		time.Sleep(2 * time.Millisecond)
	}
	time.Sleep(30 * time.Millisecond)
	mu.Lock()
	nInj := len(cs.Injected)
	mu.Unlock()
	r.Case("notify", fmt.Sprintf("%d/%d/%s/%d", r.Seed, i, cs.Method, nInj))
	// the client still serves its callers
	done := make(chan string, 1)
	go func() {
		cctx, cc := ctxT(3 * time.Second)
		defer cc()
		_ = a.Echo(cctx)
		_ = cacheDump(a, adb, []string{ts.Spec.Tables[0].Name})
		done <- "ok"
	}()
	select {
	case <-done:
	case <-time.After(8 * time.Second):
		r.Landed()
		r.Violation("notify", cs, "Echo and a cache read have not returned after 8s", "both return", true, "after ill-formed notifications the client's calls no longer return", "")
		return
	}
	r.Landed()
}
