package main

// Common bookkeeping of a check run: seeded PRNG, counters for the evidence
// file, disagreement / violation reporting, known findings.

import (
	"crypto/sha1"
	"encoding/json"
	"fmt"
	"math/rand"
	"os"
	"path/filepath"
	"sort"
	"time"
)

type KnownFinding struct {
	ID          string          `json:"id"`
	Property    string          `json:"property"`
	Status      string          `json:"status"` // "open" | "fixed"
	Predicate   string          `json:"predicate"`
	What        string          `json:"what"`
	Witness     json.RawMessage `json:"witness,omitempty"`
	FixedCommit string          `json:"fixed_commit,omitempty"`
}

type Run struct {
	Prop  string
	Tier  string
	Seed  int64
	Rng   *rand.Rand
	Mdl   *Model
	Start time.Time

	Evals      int
	distinct   map[string]struct{}
	Samples    []interface{}
	keySamples []map[string]string
	entered    string // stream journalled by Enter
	sampled    map[string]int
	Dist       map[string]int
	Streams    map[string]int
	Violations int
	KnownHits  map[string]int
	Known      []KnownFinding
	reported   map[string]bool
	Notes      []string
	Exhaustive bool
	Rule       string
}

func NewRun(prop, tier string, seed int64) (*Run, error) {
	m, err := StartModel()
	if err != nil {
		return nil, err
	}
	r := &Run{Prop: prop, Tier: tier, Seed: seed, Rng: rand.New(rand.NewSource(seed)), Mdl: m,
		Start: time.Now(), distinct: map[string]struct{}{}, Dist: map[string]int{}, Streams: map[string]int{},
		KnownHits: map[string]int{}, reported: map[string]bool{}}
	b, err := os.ReadFile(filepath.Join(verifDir(), "known_findings.json"))
	if err == nil {
		var kf struct {
			Findings []KnownFinding `json:"findings"`
		}
		if err := json.Unmarshal(b, &kf); err != nil {
			return nil, fmt.Errorf("known_findings.json: %v", err)
		}
		r.Known = kf.Findings
	}
	return r, nil
}

func verifDir() string {
	if d := os.Getenv("VERIF_DIR"); d != "" {
		return d
	}
	return "/verif"
}

// Case counts one evaluated case; key identifies it for distinctness when it is
// non-trivial by the property's rule (empty key = trivial).
func (r *Run) Case(stream string, nontrivialKey string) {
	progress.Add(1)
	r.Evals++
	r.Streams[stream]++
	if nontrivialKey != "" {
		r.distinct[stream+"|"+nontrivialKey] = struct{}{}
		// the first non-trivial cases of every stream are kept as samples (streams that hand in whole cases
		// through Sample come first)
		if r.sampled == nil {
			r.sampled = map[string]int{}
		}
		if r.sampled[stream] < 1 && len(r.keySamples) < 12 {
			r.sampled[stream]++
			k := nontrivialKey
			if len(k) > 600 {
				k = k[:600] + "..."
			}
			r.keySamples = append(r.keySamples, map[string]string{"stream": stream, "case": k})
		}
	}
}

func (r *Run) Sample(s interface{}) {
	if len(r.Samples) < 6 {
		r.Samples = append(r.Samples, s)
	}
}

func (r *Run) Count(k string) { r.Dist[k]++ }

type Replay struct {
	Property       string      `json:"property"`
	Stream         string      `json:"stream"`
	Seed           int64       `json:"seed"`
	Tier           string      `json:"tier"`
	Case           interface{} `json:"case"`
	Impl           interface{} `json:"impl"`
	Model          interface{} `json:"model"`
	PropertyFails  bool        `json:"property_fails_on_implementation"`
	Why            string      `json:"why"`
	BrokenArtifact string      `json:"broken_theorem_or_correspondence,omitempty"`
}

// Violation reports a broken correspondence or a failed oracle. propertyFails
// says whether the model-independent oracle found the property itself failing
// on the implementation for this concrete case. knownPredicate, when not
// empty, names a known-findings predicate the case falls under.
func (r *Run) Violation(stream string, c interface{}, impl, model interface{}, propertyFails bool, why string, knownPredicate string) {
	if knownPredicate != "" {
		for _, k := range r.Known {
			if k.Property == r.Prop && k.Predicate == knownPredicate && k.Status == "open" {
				r.KnownHits[k.ID]++
				return
			}
		}
	}
	r.Violations++
	if r.Violations > 5 {
		return
	}
	rep := Replay{Property: r.Prop, Stream: stream, Seed: r.Seed, Tier: r.Tier, Case: c, Impl: impl, Model: model,
		PropertyFails: propertyFails, Why: why}
	if !propertyFails {
		rep.BrokenArtifact = "correspondence stream " + stream + " (model vs implementation)"
	}
	b, _ := json.MarshalIndent(rep, "", " ")
	h := sha1.Sum(b)
	dir := filepath.Join(verifDir(), "replays")
	os.MkdirAll(dir, 0o755)
	path := filepath.Join(dir, fmt.Sprintf("%s-%x.json", r.Prop, h[:6]))
	os.WriteFile(path, b, 0o644)
	suffix := ""
	if !propertyFails {
		suffix = " no-failing-input-found"
	}
	fmt.Printf("VIOLATION property=%s replay=%s%s\n", r.Prop, path, suffix)
	fmt.Printf("  stream=%s why=%s\n", stream, why)
}

type HarnessEvidence struct {
	Evaluations        int            `json:"evaluations"`
	DistinctNontrivial int            `json:"distinct_nontrivial"`
	Rule               string         `json:"rule"`
	Samples            []interface{}  `json:"samples"`
	Distribution       map[string]int `json:"input_distribution"`
	Streams            map[string]int `json:"correspondence_streams"`
	ModelCalls         int            `json:"model_calls"`
	Violations         int            `json:"violations"`
	KnownHits          map[string]int `json:"known_finding_hits"`
	Notes              []string       `json:"notes,omitempty"`
	Exhaustive         bool           `json:"exhaustive"`
	WallS              float64        `json:"wall_s"`
}

// Finish prints KNOWN-FINDING lines, writes the harness part of the evidence,
// and returns the process exit code.
// InFlight records the case that is about to be run in a file that survives a
// crash of the whole process (a panic in a goroutine of the library cannot be
// recovered by the harness); Landed removes it. `check` turns a leftover file
// into the replay of the violation.
func (r *Run) InFlight(stream string, c interface{}, why string) {
	rep := Replay{Property: r.Prop, Stream: stream, Seed: r.Seed, Tier: r.Tier, Case: c, Impl: "the harness process died while this case was running", PropertyFails: true, Why: why}
	b, _ := json.MarshalIndent(rep, "", " ")
	dir := filepath.Join(verifDir(), "replays")
	os.MkdirAll(dir, 0o755)
	os.WriteFile(filepath.Join(dir, r.Prop+"-inflight.json"), b, 0o644)
}

func (r *Run) Landed() {
	if r.entered != "" {
		r.Enter(r.entered) // back to the journal entry of the stream as a whole
		return
	}
	os.Remove(filepath.Join(verifDir(), "replays", r.Prop+"-inflight.json"))
}

// Enter records that a stream is running from now on: if the process dies before the next InFlight / Enter /
// Finish (a panic in a goroutine of the library), `check` reports the crash with the stream's name, the seed
// and the panic's stack as replay. Streams that journal single cases (InFlight) refine this entry.
func (r *Run) Enter(stream string) {
	r.entered = stream
	rep := Replay{Property: r.Prop, Stream: stream, Seed: r.Seed, Tier: r.Tier,
		Case: map[string]interface{}{"stream_running": stream, "note": "the cases of a stream are a function of the seed: rerun the stream to reproduce"},
		Impl: "the harness process died while this stream was running", PropertyFails: true, Why: "the library crashed the process (see the stack in output_tail)"}
	b, _ := json.MarshalIndent(rep, "", " ")
	dir := filepath.Join(verifDir(), "replays")
	os.MkdirAll(dir, 0o755)
	os.WriteFile(filepath.Join(dir, r.Prop+"-inflight.json"), b, 0o644)
}

func (r *Run) Finish(out string) int {
	r.entered = ""
	r.Landed()
	r.Mdl.Close()
	ids := []string{}
	for id := range r.KnownHits {
		ids = append(ids, id)
	}
	sort.Strings(ids)
	for _, id := range ids {
		for _, k := range r.Known {
			if k.ID == id {
				fmt.Printf("KNOWN-FINDING: property=%s %s: %s (%d cases this run)\n", r.Prop, k.ID, k.What, r.KnownHits[id])
			}
		}
	}
	samples := append([]interface{}{}, r.Samples...)
	for _, ks := range r.keySamples {
		if len(samples) >= 12 {
			break
		}
		samples = append(samples, ks)
	}
	ev := HarnessEvidence{Evaluations: r.Evals, DistinctNontrivial: len(r.distinct), Rule: r.Rule, Samples: samples,
		Distribution: r.Dist, Streams: r.Streams, ModelCalls: r.Mdl.Calls, Violations: r.Violations, KnownHits: r.KnownHits,
		Notes: r.Notes, Exhaustive: r.Exhaustive, WallS: time.Since(r.Start).Seconds()}
	b, _ := json.MarshalIndent(ev, "", " ")
	if out != "" {
		os.WriteFile(out, b, 0o644)
	}
	if r.Violations > 0 {
		return 1
	}
	return 0
}
