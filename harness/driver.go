package main

// Client side of the line protocol to the Lean driver executable.

import (
	"bufio"
	"bytes"
	"encoding/json"
	"fmt"
	"io"
	"os"
	"os/exec"
	"strconv"
	"strings"
)

type Model struct {
	cmd   *exec.Cmd
	in    io.WriteCloser
	out   *bufio.Reader
	Calls int
}

func driverPath() string {
	if p := os.Getenv("VERIF_DRIVER"); p != "" {
		return p
	}
	return "/verif/lean/.lake/build/bin/driver"
}

func StartModel() (*Model, error) {
	cmd := exec.Command(driverPath())
	in, err := cmd.StdinPipe()
	if err != nil {
		return nil, err
	}
	out, err := cmd.StdoutPipe()
	if err != nil {
		return nil, err
	}
	cmd.Stderr = os.Stderr
	if err := cmd.Start(); err != nil {
		return nil, err
	}
	return &Model{cmd: cmd, in: in, out: bufio.NewReaderSize(out, 1<<20)}, nil
}

func (m *Model) Close() {
	m.in.Close()
	m.cmd.Wait()
}

// Call sends one request (a JSON object with at least "fn") and decodes the
// "ok" member of the answer into res. A driver-side error is returned as error.
func (m *Model) Call(req map[string]interface{}, res interface{}) error {
	b, err := json.Marshal(req)
	if err != nil {
		return err
	}
	m.Calls++
	if _, err := m.in.Write(append(b, '\n')); err != nil {
		return err
	}
	line, err := m.out.ReadBytes('\n')
	if err != nil {
		return fmt.Errorf("driver closed: %v", err)
	}
	var env struct {
		Ok    json.RawMessage `json:"ok"`
		Error *string         `json:"error"`
	}
	if err := json.Unmarshal(line, &env); err != nil {
		return fmt.Errorf("bad driver answer %q: %v", line, err)
	}
	if env.Error != nil {
		return fmt.Errorf("driver error: %s", *env.Error)
	}
	if res == nil {
		return nil
	}
	return json.Unmarshal(env.Ok, res)
}

// Exact is a JSON value of the model driver decoded without loss: an integer literal beyond 2^53 becomes
// an int64 (encoding/json's float64 would round it), every other number a float64
type Exact struct{ V interface{} }

func (e *Exact) UnmarshalJSON(b []byte) error {
	dec := json.NewDecoder(bytes.NewReader(b))
	dec.UseNumber()
	var raw interface{}
	if err := dec.Decode(&raw); err != nil {
		return err
	}
	var walk func(x interface{}) interface{}
	walk = func(x interface{}) interface{} {
		switch t := x.(type) {
		case json.Number:
			if s := t.String(); !strings.ContainsAny(s, ".eE") {
				if i, err := strconv.ParseInt(s, 10, 64); err == nil && (i > 1<<53 || i < -(1<<53)) {
					return i
				}
			}
			f, _ := t.Float64()
			return f
		case []interface{}:
			for i := range t {
				t[i] = walk(t[i])
			}
		case map[string]interface{}:
			for k := range t {
				t[k] = walk(t[k])
			}
		}
		return x
	}
	e.V = walk(raw)
	return nil
}
