package main

import (
	"io"
	"log"
	"flag"
	"fmt"
	"os"
	"strconv"

	"github.com/go-logr/stdr"
)

func init() {
	// the server package raises the global stdr verbosity when it is loaded
	stdr.SetVerbosity(0)
	// the server logs every rejected transaction to os.Stderr (captured when it is created)
	if f, err := os.OpenFile(os.DevNull, os.O_WRONLY, 0); err == nil && os.Getenv("VERIF_SERVER_LOG") == "" {
		os.Stderr = f
	}
	log.SetOutput(io.Discard)
}

var props = map[string]func(r *Run){}

func main() {
	tier := flag.String("tier", "quick", "quick|thorough")
	seed := flag.Int64("seed", 1, "PRNG seed")
	out := flag.String("out", "", "harness evidence output file")
	replay := flag.String("replay", "", "replay file")
	flag.Parse()
	if flag.NArg() < 1 {
		fmt.Fprintln(os.Stderr, "usage: harness [flags] <Cxx>")
		os.Exit(2)
	}
	prop := flag.Arg(0)
	if s := os.Getenv("VERIF_SEED"); s != "" && !isFlagSet("seed") {
		if v, err := strconv.ParseInt(s, 10, 64); err == nil {
			*seed = v
		}
	}
	f, ok := props[prop]
	if !ok {
		fmt.Fprintf(os.Stderr, "no harness for %s\n", prop)
		os.Exit(2)
	}
	r, err := NewRun(prop, *tier, *seed)
	if err != nil {
		fmt.Fprintln(os.Stderr, err)
		os.Exit(2)
	}
	_ = replay
	f(r)
	os.Exit(r.Finish(*out))
}

func isFlagSet(name string) bool {
	set := false
	flag.Visit(func(f *flag.Flag) {
		if f.Name == name {
			set = true
		}
	})
	return set
}
