package main

import (
	"flag"
	"fmt"
	"io"
	"log"
	"os"
	"path/filepath"
	"runtime/pprof"
	"strconv"
	"sync/atomic"
	"time"

	"github.com/go-logr/stdr"
)

// realStderr keeps file descriptor 2 open (an unreferenced *os.File is closed by its finalizer, and the
// runtime's panic traces would be lost with it)
var realStderr = os.Stderr

func init() {
	// the server package raises the global stdr verbosity when it is loaded
	stdr.SetVerbosity(0)
	// the server logs every rejected transaction to os.Stderr (captured when it is created)
	if f, err := os.OpenFile(os.DevNull, os.O_WRONLY, 0); err == nil && os.Getenv("VERIF_SERVER_LOG") == "" {
		os.Stderr = f
	}
	log.SetOutput(io.Discard)
}

var props = map[string]func(r *Run){}

func main() {
	tier := flag.String("tier", "quick", "quick|thorough")
	seed := flag.Int64("seed", 1, "PRNG seed")
	out := flag.String("out", "", "harness evidence output file")
	replay := flag.String("replay", "", "replay file")
	flag.Parse()
	if flag.NArg() < 1 {
		fmt.Fprintln(os.Stderr, "usage: harness [flags] <Cxx>")
		os.Exit(2)
	}
	prop := flag.Arg(0)
	if s := os.Getenv("VERIF_SEED"); s != "" && !isFlagSet("seed") {
		if v, err := strconv.ParseInt(s, 10, 64); err == nil {
			*seed = v
		}
	}
	f, ok := props[prop]
	if !ok {
		fmt.Fprintf(os.Stderr, "no harness for %s\n", prop)
		os.Exit(2)
	}
	r, err := NewRun(prop, *tier, *seed)
	if err != nil {
		fmt.Fprintln(os.Stderr, err)
		os.Exit(2)
	}
	_ = replay
	go watchdog(r, *out)
	r.Enter("(any stream of " + prop + ")")
	f(r)
	os.Exit(r.Finish(*out))
}

// progress is bumped by every evaluated case; the watchdog turns a stall of the
// whole harness (a call into the library that never returns) into a reported
// violation with the goroutine dump as replay, instead of a hang.
var progress atomic.Int64

func watchdog(r *Run, out string) {
	limit := 180 * time.Second
	if s := os.Getenv("VERIF_STALL_SECONDS"); s != "" {
		if v, err := strconv.Atoi(s); err == nil {
			limit = time.Duration(v) * time.Second
		}
	}
	last, since := progress.Load(), time.Now()
	for {
		time.Sleep(time.Second)
		if p := progress.Load(); p != last {
			last, since = p, time.Now()
			continue
		}
		if time.Since(since) > limit {
			dir := filepath.Join(verifDir(), "replays")
			os.MkdirAll(dir, 0o755)
			path := filepath.Join(dir, fmt.Sprintf("%s-stall-seed%d.txt", r.Prop, r.Seed))
			if fh, err := os.Create(path); err == nil {
				fmt.Fprintf(fh, "no case completed for %v (property %s tier %s seed %d); goroutines:\n\n", limit, r.Prop, r.Tier, r.Seed)
				pprof.Lookup("goroutine").WriteTo(fh, 2)
				fh.Close()
			}
			fmt.Printf("VIOLATION property=%s replay=%s\n  stream=stall why=no case completed for %v: a call into the library does not return\n", r.Prop, path, limit)
			r.Violations++
			r.Finish(out)
			os.Exit(1)
		}
	}
}

func isFlagSet(name string) bool {
	set := false
	flag.Visit(func(f *flag.Flag) {
		if f.Name == name {
			set = true
		}
	})
	return set
}
